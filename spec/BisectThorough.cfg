SPECIFICATION Spec
CONSTANTS NMAX = 9
          VMAX = 12
          OLD = FALSE
INVARIANTS Refines InRange Emit
PROPERTIES Progress
CHECK_DEADLOCK FALSE
