-------------------------------- MODULE Locale --------------------------------
(* Locale direction independence (C20): --from-locale (setilocale) governs the four tables used for PARSING month
   and weekday names (long/abbreviated weekdays, long/abbreviated months), --locale (setflocale) the four tables used for
   PRINTING; each affects its own direction only, in whatever order and combination they are given.
   The module models the eight tables as the locale they currently hold ("C" = built-in names) and the four setters.
   TLC checks over every sequence of up to MAXOPS setter calls over LOCS:
        ParseByI   the parse tables hold the locale of the last SetI / ResetI
        PrintByF   the print tables hold the locale of the last SetF / ResetF
   CROSS = TRUE models the pinned setters (three of the four print setters reset the corresponding PARSE table instead
   of the print table): refuted -- the negative control. *)
EXTENDS Integers, Sequences, TLC
CONSTANTS LOCS, MAXOPS, CROSS
Kinds == {"lw", "aw", "lm", "am"}
VARIABLES ptab, ftab,        \* [kind -> locale] parse and print tables
          iloc, floc, nops
vars == <<ptab, ftab, iloc, floc, nops>>
Init == ptab = [k \in Kinds |-> "C"] /\ ftab = [k \in Kinds |-> "C"] /\ iloc = "C" /\ floc = "C" /\ nops = 0
SetI(l) == /\ nops < MAXOPS /\ nops' = nops + 1 /\ iloc' = l /\ ptab' = [k \in Kinds |-> l] /\ UNCHANGED <<ftab, floc>>
ResetI == /\ nops < MAXOPS /\ nops' = nops + 1 /\ iloc' = "C" /\ ptab' = [k \in Kinds |-> "C"] /\ UNCHANGED <<ftab, floc>>
SetF(l) == /\ nops < MAXOPS /\ nops' = nops + 1 /\ floc' = l /\ ftab' = [k \in Kinds |-> l]
           /\ ptab' = IF CROSS THEN [k \in Kinds |-> IF k = "lw" THEN ptab[k] ELSE "C"] ELSE ptab
           /\ UNCHANGED iloc
ResetF == /\ nops < MAXOPS /\ nops' = nops + 1 /\ floc' = "C" /\ ftab' = [k \in Kinds |-> "C"] /\ UNCHANGED <<ptab, iloc>>
Next == (\E l \in LOCS : SetI(l) \/ SetF(l)) \/ ResetI \/ ResetF
Spec == Init /\ [][Next]_vars
ParseByI == \A k \in Kinds : ptab[k] = iloc
PrintByF == \A k \in Kinds : ftab[k] = floc
=============================================================================
