SPECIFICATION Spec
CONSTANTS
  MAXLINES = 3
  GAPS = {1, 28, 181, 366}
  STEPS <- StepsNeg
  ND0 = 26298
  Emit = FALSE
INVARIANTS TypeOK Refines SWellFormed StaticsReset
CHECK_DEADLOCK FALSE
