--------------------------- MODULE CalendarTrace ---------------------------
(* Direction B for C01/C02: events recorded from the real library (drv_cal trace mode:
   what dt_dconv / dt_strfdt answered for a day supplied in some representation) are
   accepted only if they agree with the Calendar behaviour.
     Reset(y,m,d)  jump to a day; every variable is set by its closed form
     Next          the real driver moved to the following day  <->  NextDay
     Day(...)      observations for the current day; enabled iff every logged field equals
                   the corresponding state variable / the Render of the specifier *)
EXTENDS Calendar, Json, IOUtils, TLCExt
VARIABLE l
Tr == ndJsonDeserialize(IOEnv.TRACE)
Ev == Tr[l]
tvars == <<vars, l>>

HkOf(ld) == IF ld < HBOM[1] \/ ld >= HBOM[HNMON] + 29 THEN 0
            ELSE CHOOSE k \in 1..HNMON : HBOM[k] <= ld /\ (k = HNMON \/ HBOM[k + 1] > ld)

TInit == /\ l = 1
         /\ InitFirst

TReset == /\ l <= Len(Tr) /\ Ev.e = "Reset"
          /\ LET Y == Ev.y  M == Ev.m  D == Ev.d
                 N == RD(Y, M, D)
                 W == WdOfRD(N)
                 YD == CumDays(Y, M) + D
                 LD == N - RD1582
             IN /\ y' = Y /\ m' = M /\ d' = D /\ n' = N /\ wd' = W /\ yd' = YD
                /\ iy' = IsoOf(Y, YD, W)[1] /\ iw' = IsoOf(Y, YD, W)[2]
                /\ wU' = (YD + 6 - (W % 7)) \div 7
                /\ wW' = (YD + 6 - ((W + 6) % 7)) \div 7
                /\ c' = (D - 1) \div 7 + 1
                /\ bdm' = BizDaysUpTo(Y, M, D)
                /\ bcum' = BizUpToRD(N) - BizUpToRD(RD1582 - 1)
                /\ LET HK == HkOf(LD) IN
                   /\ hk' = HK
                   /\ hd' = IF HK = 0 THEN 0 ELSE LD - HBOM[HK] + 1
          /\ l' = l + 1

TNext == /\ l <= Len(Tr) /\ Ev.e = "Next"
         /\ NextDay
         /\ l' = l + 1

Pad2(k) == IF k < 10 THEN "0" \o ToString(k) ELSE ToString(k)
Pad3(k) == IF k < 10 THEN "00" \o ToString(k) ELSE IF k < 100 THEN "0" \o ToString(k) ELSE ToString(k)
Pad4(k) == IF k < 1000 THEN "0" \o Pad3(k) ELSE ToString(k)
WdAbbr == <<"Mon", "Tue", "Wed", "Thu", "Fri", "Sat", "Sun">>
WdLong == <<"Monday", "Tuesday", "Wednesday", "Thursday", "Friday", "Saturday", "Sunday">>
MonLong == <<"January", "February", "March", "April", "May", "June", "July", "August", "September", "October",
             "November", "December">>
MonAbbr == <<"Jan", "Feb", "Mar", "Apr", "May", "Jun", "Jul", "Aug", "Sep", "Oct", "Nov", "Dec">>

\* Render of the specifiers (info/format.texi)
Render(sp) ==
  CASE sp = "Y" -> Pad4(y)
    [] sp = "m" -> Pad2(m)
    [] sp = "d" -> Pad2(d)
    [] sp = "u" -> ToString(wd)
    [] sp = "j" -> Pad3(yd)
    [] sp = "c" -> Pad2(c)
    [] sp = "U" -> Pad2(wU)
    [] sp = "V" -> Pad2(iw)
    [] sp = "C" -> Pad2((yd - 1) \div 7 + 1)
    [] sp = "W" -> Pad2(wW)
    [] sp = "q" -> Pad2(Quarter(m))
    [] sp = "G" -> Pad4(iy)
    [] sp = "a" -> WdAbbr[wd]
    [] sp = "b" -> MonAbbr[m]
    [] sp = "y" -> Pad2(y % 100)
    [] sp = "g" -> Pad2(iy % 100)
    [] sp = "Q" -> "Q" \o ToString(Quarter(m))
    [] sp = "A" -> WdLong[wd]
    [] sp = "B" -> MonLong[m]
    [] sp = "F" -> Pad4(y) \o "-" \o Pad2(m) \o "-" \o Pad2(d)
    [] sp = "ymcw" -> Pad4(y) \o "-" \o Pad2(m) \o "-" \o Pad2(c) \o "-" \o Pad2(wd)
    [] sp = "ywd" -> Pad4(iy) \o "-W" \o Pad2(iw) \o "-" \o ToString(wd)
    [] sp = "yd" -> Pad4(y) \o "-" \o Pad3(yd)
    [] sp = "ldn" -> ToString(ldn)
    [] sp = "mdn" -> ToString(mdn)
    [] sp = "jdn" -> ToString(jdn2 \div 2) \o ".500000"
    [] sp = "hijri" -> IF hk = 0 THEN "" ELSE Pad4(hy) \o "-" \o Pad2(hm) \o "-" \o Pad2(hd)

Specs == {"Y", "m", "d", "u", "j", "c", "U", "V", "C", "W", "q", "G", "a", "b"}

DayOK(e) ==
  /\ e.ymd = <<y, m, d>>
  /\ e.ymcw = <<y, m, c, wd % 7>>
  /\ e.ywd = <<iy, iw, wd % 7>>
  /\ e.yd = <<y, yd>>
  /\ e.daisy = daisy
  /\ e.ldn = ldn
  /\ e.mdn = mdn
  /\ e.jdn2 = jdn2
  /\ \A sp \in Specs : e.txt[sp] = Render(sp)

TDay == /\ l <= Len(Tr) /\ Ev.e = "Day"
        /\ DayOK(Ev)
        /\ l' = l + 1
        /\ UNCHANGED vars

\* Txt: what a tool printed for the current day: every logged specifier text must be its Render;
\* epoch seconds are logged as <<unix day, second of day>> (TLC integers are 32 bit)
TTxt == /\ l <= Len(Tr) /\ Ev.e = "Txt"
        /\ \A sp \in DOMAIN Ev.txt : Ev.txt[sp] = Render(sp)
        /\ ("epoch" \in DOMAIN Ev) => Ev.epoch = <<uday, 0>>
        /\ l' = l + 1
        /\ UNCHANGED vars

TNextStep == TReset \/ TNext \/ TDay \/ TTxt
TSpec == TInit /\ [][TNextStep]_tvars
Accepted == TLCGet("stats").diameter - 1 = Len(Tr)
=============================================================================
