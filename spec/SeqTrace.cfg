SPECIFICATION TSpec
CONSTANTS DAY = 86400
          LMAX = 1
POSTCONDITION Accepted
CHECK_DEADLOCK FALSE
