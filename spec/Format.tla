------------------------------- MODULE Format -------------------------------
(* C09: the specifier grammar of lib/token.c as a generator of format strings ("the format string is the program"), and the
   scope of the round-trip property: formats whose specifiers TOGETHER DETERMINE the value (Complete) and whose printed
   fields can be told apart again (Unamb).  A state is a partial format: tokens and the separators between them.
   TLC explores every format up to MAXTOK tokens over the token set TOKS and checks
     GuessAgrees   the parser's calendar choice (transcription of __guess_dtyp over the set of parsed fields) is the
                   calendar family the format's fields determine -- families are mutually exclusive under that rule
     OneFamily     a complete format is complete for exactly one family
   Every complete format is emitted; the real dt_strfdt -> dt_strpdt round trip is replayed on each (direction A), and
   FormatTrace.tla re-evaluates Complete / Unamb on recorded runs of the library and of dconv (direction B). *)
EXTENDS Integers, Sequences, FiniteSets, TLC, Json
CONSTANTS TOKS,        \* token names in play
          SEPS,       \* separators in play ("" = adjacent)
          MAXTOK,
          KINDS       \* value kinds: "d" date, "t" time, "dt" date-time

(* token -> fields it carries, printed width class, lexical class
   w2/w3/w4 fixed number of digits; w1 one digit (the readers take up to two); var unpadded number; ord number + st/nd/rd/th;
   rom Roman numeral; name entry of a name table; ch one letter *)
T(f, c) == [f |-> f, c |-> c]
Tok == [x \in {} |-> T({}, "")]
  @@ "%Y"  :> T({"Y"}, "w4")  @@ "%y"   :> T({"Y"}, "w2")   @@ "%_y" :> T({"Y"}, "w1")  @@ "%OY" :> T({"Y"}, "rom")
  @@ "%G"  :> T({"G"}, "w4")  @@ "%g"   :> T({"G"}, "w2")   @@ "%rY" :> T({"G"}, "w4")
  @@ "%m"  :> T({"m"}, "w2")  @@ "%0m"  :> T({"m"}, "w2")   @@ "%-m" :> T({"m"}, "var") @@ "% m" :> T({"m"}, "sp2")
  @@ "%mth" :> T({"m"}, "ord") @@ "%Om" :> T({"m"}, "rom")  @@ "%b"  :> T({"m"}, "name") @@ "%B"  :> T({"m"}, "name")
  @@ "%h"  :> T({"m"}, "name") @@ "%_b" :> T({"m"}, "ch")
  @@ "%d"  :> T({"d"}, "w2")  @@ "%-d"  :> T({"d"}, "var")  @@ "% d" :> T({"d"}, "sp2") @@ "%dth" :> T({"d"}, "ord")
  @@ "%Od" :> T({"d"}, "rom")
  @@ "%j"  :> T({"j"}, "w3")  @@ "%D"   :> T({"j"}, "w3")   @@ "%-j" :> T({"j"}, "var") @@ "%jth" :> T({"j"}, "ord")
  @@ "%a"  :> T({"w"}, "name") @@ "%A"  :> T({"w"}, "name") @@ "%_a" :> T({"w"}, "ch")  @@ "%u"  :> T({"w"}, "w1")
  @@ "%w"  :> T({"w"}, "w2")
  @@ "%c"  :> T({"c"}, "w2")  @@ "%-c"  :> T({"c"}, "var")  @@ "%cth" :> T({"c"}, "ord") @@ "%Oc" :> T({"c"}, "rom")
  @@ "%V"  :> T({"V"}, "w2")  @@ "%U"   :> T({"U"}, "w2")   @@ "%W"  :> T({"W"}, "w2")  @@ "%C"  :> T({"C"}, "w2")
  @@ "%-V" :> T({"V"}, "var")
  @@ "%db" :> T({"b"}, "w2")  @@ "%dB"  :> T({"B"}, "w2")
  @@ "%F"  :> T({"Y", "m", "d"}, "w2")
  @@ "%H"  :> T({"H"}, "w2")  @@ "%-H"  :> T({"H"}, "var")  @@ "%I"  :> T({"I"}, "w2")  @@ "%M"  :> T({"M"}, "w2")
  @@ "%S"  :> T({"S"}, "w2")  @@ "%N"   :> T({"N"}, "var")  @@ "%p"  :> T({"p"}, "name") @@ "%P" :> T({"p"}, "name")
  @@ "%T"  :> T({"H", "M", "S"}, "w2")
  @@ "%s"  :> T({"s"}, "var")

DateF == {"Y", "G", "m", "d", "j", "w", "c", "V", "U", "W", "C", "b", "B"}
TimeF == {"H", "I", "M", "S", "N", "p"}

(* calendar families: required and optional fields, and the calendar the parser must choose *)
Fam == [x \in {} |-> [req |-> {}, opt |-> {}, cal |-> ""]]
  @@ "ymd"   :> [req |-> {"Y", "m", "d"},      opt |-> {"w"}, cal |-> "ymd"]
  @@ "yd"    :> [req |-> {"Y", "j"},           opt |-> {"w"}, cal |-> "yd"]
  @@ "ymcw"  :> [req |-> {"Y", "m", "c", "w"}, opt |-> {},    cal |-> "ymcw"]
  @@ "ywdI"  :> [req |-> {"G", "V", "w"},      opt |-> {},    cal |-> "ywd"]
  @@ "ywdU"  :> [req |-> {"Y", "U", "w"},      opt |-> {},    cal |-> "ywd"]
  @@ "ywdW"  :> [req |-> {"Y", "W", "w"},      opt |-> {},    cal |-> "ywd"]
  @@ "ywdC"  :> [req |-> {"Y", "C", "w"},      opt |-> {},    cal |-> "ywd"]
  @@ "bizda" :> [req |-> {"Y", "m", "b"},      opt |-> {},    cal |-> "bizda"]
  @@ "bizdB" :> [req |-> {"Y", "m", "B"},      opt |-> {},    cal |-> "bizda"]
TFam == [x \in {} |-> [req |-> {}, opt |-> {}]]
  @@ "hms"   :> [req |-> {"H", "M", "S"},      opt |-> {"N"}]
  @@ "ims"   :> [req |-> {"I", "p", "M", "S"}, opt |-> {"N"}]

FitsD(fs, f) == Fam[f].req \subseteq fs /\ fs \subseteq Fam[f].req \cup Fam[f].opt
FitsT(fs, f) == TFam[f].req \subseteq fs /\ fs \subseteq TFam[f].req \cup TFam[f].opt
PartD(fs) == \E f \in DOMAIN Fam : fs \subseteq Fam[f].req \cup Fam[f].opt
PartT(fs) == \E f \in DOMAIN TFam : fs \subseteq TFam[f].req \cup TFam[f].opt
DateFams(fs) == {f \in DOMAIN Fam : FitsD(fs, f)}

Complete(fs, k) ==
  LET df == fs \cap DateF  tf == fs \cap TimeF IN
  CASE k = "d"  -> "s" \notin fs /\ tf = {} /\ DateFams(df) # {}
    [] k = "t"  -> "s" \notin fs /\ df = {} /\ \E f \in DOMAIN TFam : FitsT(tf, f)
    [] k = "dt" -> \/ fs = {"s"}
                   \/ "s" \notin fs /\ DateFams(df) # {} /\ \E f \in DOMAIN TFam : FitsT(tf, f)
Partial(fs, k) ==
  LET df == fs \cap DateF  tf == fs \cap TimeF IN
  CASE k = "d"  -> "s" \notin fs /\ tf = {} /\ PartD(df)
    [] k = "t"  -> "s" \notin fs /\ df = {} /\ PartT(tf)
    [] k = "dt" -> fs = {"s"} \/ ("s" \notin fs /\ PartD(df) /\ PartT(tf))

(* transcription of lib/date-core.c:__guess_dtyp over the SET of parsed fields (month, count and year are never 0 for a value
   that was printed from a date) *)
Guess(fs) ==
  LET hasY == "Y" \in fs \/ "G" \in fs
      cnt  == "c" \in fs
      wcnt == fs \cap {"V", "U", "W", "C"} # {}
      biz  == fs \cap {"b", "B"} # {}
  IN IF hasY /\ ~cnt /\ ~wcnt /\ ~biz THEN (IF "j" \in fs THEN "yd" ELSE "ymd")
     ELSE IF hasY /\ "m" \notin fs /\ ~biz THEN "ywd"
     ELSE IF hasY /\ ~biz THEN "ymcw"
     ELSE IF hasY THEN "bizda" ELSE "unk"

(* can the text of token a, then separator s, then the text of token b be told apart by the field readers?
   fixed-width digit fields may touch anything; a one-digit field, an unpadded number, an ordinal, a Roman numeral and %N / %s
   need a separator that cannot continue them; names and one-letter codes delimit themselves *)
Cls(t) == Tok[t].c
Unamb2(a, s, b) ==
  CASE Cls(a) \in {"w2", "w3", "w4", "sp2"} -> s # "" \/ Cls(b) # "sp2"
    [] Cls(a) \in {"w1", "var"}            -> s \notin {""}
    [] Cls(a) \in {"ord", "rom"}           -> s \notin {"", "T"}
    [] Cls(a) \in {"name", "ch"}           -> TRUE
    [] OTHER -> FALSE

VARIABLES toks, seps, kind
vars == <<toks, seps, kind>>
Fields(ts) == UNION {Tok[ts[i]].f : i \in 1..Len(ts)}
Init == toks = <<>> /\ seps = <<>> /\ kind \in KINDS
AddTok(t, s) ==
  /\ Len(toks) < MAXTOK
  /\ Tok[t].f \cap Fields(toks) = {}
  /\ Partial(Fields(toks) \cup Tok[t].f, kind)
  /\ toks # <<>> => Unamb2(toks[Len(toks)], s, t)
  /\ toks' = Append(toks, t)
  /\ seps' = IF toks = <<>> THEN seps ELSE Append(seps, s)
  /\ UNCHANGED kind
Next == \E t \in TOKS, s \in SEPS : (toks = <<>> => s = "") /\ AddTok(t, s)
Spec == Init /\ [][Next]_vars

Done == toks # <<>> /\ Complete(Fields(toks), kind)
(* what the value must satisfy for the format to determine it *)
Window == IF \E i \in 1..Len(toks) : toks[i] = "%_y" THEN "decade"
          ELSE IF \E i \in 1..Len(toks) : toks[i] \in {"%y", "%g"} THEN "century" ELSE "all"
NeedsBiz == Fields(toks) \cap {"b", "B"} # {}

GuessAgrees == Done /\ kind # "t" /\ Fields(toks) # {"s"} =>
                 \A f \in DateFams(Fields(toks) \cap DateF) : Guess(Fields(toks) \cap DateF) = Fam[f].cal
OneFamily == Done /\ kind # "t" /\ Fields(toks) # {"s"} => Cardinality(DateFams(Fields(toks) \cap DateF)) = 1
Emit == Done => PrintT(ToJson([t |-> toks, s |-> seps, k |-> kind, win |-> Window, biz |-> NeedsBiz,
                                    cal |-> IF kind = "t" \/ Fields(toks) = {"s"} THEN "-" ELSE Guess(Fields(toks) \cap DateF)]))
=============================================================================
