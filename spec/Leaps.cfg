SPECIFICATION Spec
INVARIANTS StepsByOne Monotone StepExact KeepsLast Anchors AddRealLaws
CHECK_DEADLOCK FALSE
