SPECIFICATION Spec
CONSTANT KMAX = 23
INVARIANTS LandsOnBiz Strict ClosedOK Inverse Additive Emit
CHECK_DEADLOCK FALSE
