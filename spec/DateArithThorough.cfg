SPECIFICATION Spec
CONSTANTS
  YEARS = {1999, 2000, 2096, 2100, 2399, 2400}
  DAYS = {1, 28, 29, 30, 31}
  KM <- KM_t
  KYR <- KYR_t
  KD <- KD_t
  MAXOPS = 3
  EAGER = FALSE
INVARIANTS Valid Compose DayExact KeepDay Emit
CHECK_DEADLOCK FALSE
