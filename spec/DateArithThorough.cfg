SPECIFICATION Spec
CONSTANTS
  YEARS = {1700, 1999, 2000, 2096, 2100, 2399, 2400, 3999}
  DAYS = {1, 28, 29, 30, 31}
  KM <- KM_t
  KYR <- KYR_t
  KD <- KD_t
  MAXOPS = 2
  EAGER = FALSE
INVARIANTS Valid Compose DayExact KeepDay Emit
CHECK_DEADLOCK FALSE
