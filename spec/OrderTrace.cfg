SPECIFICATION TSpec
CONSTANTS ND = 4
          NS = 3
          MAXLEN = 2
POSTCONDITION Accepted
CHECK_DEADLOCK FALSE
