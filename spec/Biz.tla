--------------------------------- MODULE Biz ---------------------------------
(* (S) semantics of business-day arithmetic (C07) on the integer day line:
   day i has weekday Wd(i) (Mon=1..Sun=7), business days are Mon..Fri.
     AddB(i, k)   the k-th business day strictly after i (strictly before for k < 0)  -- by counting
     DiffB(i, j)  the number of business days in the half-open interval (i, j] for j >= i,
                  minus the number in [j, i) for j < i                                  -- by counting
   TLC checks that counting and the closed form agree, and the law a user relies on:
   DiffB(i, AddB(i, k)) = k for every start (week days and weekend days) and every k # 0.
   The table (weekday of start, k) -> offset in days is emitted and replayed through dadd. *)
EXTENDS Integers, FiniteSets, TLC, Json
CONSTANTS KMAX          \* |k| <= KMAX
LO == -2 * KMAX - 10
HI == 2 * KMAX + 16
Wd(i) == ((i - 1) % 7) + 1            \* day 1 is a Monday (as Rata Die 1)
IsBiz(i) == Wd(i) <= 5
BizIn(lo, hi) == Cardinality({j \in lo..hi : IsBiz(j)})     \* business days in [lo, hi]

AddB(i, k) == IF k > 0 THEN CHOOSE j \in (i + 1)..HI : IsBiz(j) /\ BizIn(i + 1, j) = k
              ELSE CHOOSE j \in LO..(i - 1) : IsBiz(j) /\ BizIn(j, i - 1) = -k
DiffB(i, j) == IF j >= i THEN BizIn(i + 1, j) ELSE -BizIn(j, i - 1)

\* closed form: move to the nearest business day in the direction of travel (that counts as one step from a weekend),
\* then whole weeks and the remainder
Abs(x) == IF x < 0 THEN -x ELSE x
ClosedAddB(i, k) ==
  LET w == Wd(i)
      \* normalise a weekend start to the adjacent business day *behind* the direction of travel
      i0 == IF w <= 5 THEN i ELSE IF k > 0 THEN i - (w - 5) ELSE i + (8 - w)
      w0 == Wd(i0)
      q == Abs(k) \div 5
      r == Abs(k) % 5
  IN IF k > 0 THEN i0 + 7 * q + r + (IF w0 + r > 5 THEN 2 ELSE 0)
     ELSE i0 - 7 * q - r - (IF w0 - r < 1 THEN 2 ELSE 0)

VARIABLES i, k
vars == <<i, k>>
Init == i \in 1..7 /\ k \in ((-KMAX)..KMAX) \ {0}
Next == UNCHANGED vars
Spec == Init /\ [][Next]_vars

LandsOnBiz == IsBiz(AddB(i, k))
Strict     == IF k > 0 THEN AddB(i, k) > i ELSE AddB(i, k) < i
ClosedOK   == ClosedAddB(i, k) = AddB(i, k)
Inverse    == DiffB(i, AddB(i, k)) = k
Additive   == \A k2 \in 1..5 : (k > 0 /\ k + k2 <= KMAX) => AddB(AddB(i, k), k2) = AddB(i, k + k2)
Emit == PrintT(ToJson([wd |-> Wd(i), k |-> k, off |-> AddB(i, k) - i]))
=============================================================================
