SPECIFICATION Spec
CONSTANTS
  TOKS = {"%F","%T","%s","%Y","%m","%d","%j","%b","%dth","%H","%M","%S","%N","%I","%p","%G","%V","%u"}
  SEPS = {"", " ", "T"}
  MAXTOK = 6
  KINDS = {"dt"}
INVARIANTS GuessAgrees OneFamily Emit
CHECK_DEADLOCK FALSE
