SPECIFICATION Spec
CONSTANT YLAST = 4095
INVARIANTS InvRD InvWd InvYd InvIso InvU InvW InvC InvBdm InvBcum InvHij InvHijIn Anchors Emit
CHECK_DEADLOCK FALSE
