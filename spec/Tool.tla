--------------------------------- MODULE Tool ---------------------------------
(* (S) the no-hidden-state law (C13).  A line-oriented tool is a state machine: it holds a hidden state h, and on
   input x prints Out(h, x) and moves to Upd(h, x).  The law a user relies on is
        RunAll(xs) = concatenation of RunOne(x) for x in xs          (RunOne starts from the pristine state)
   i.e. Out(h, x) = Out(H0, x) for every reachable h.  TLC checks the law over every input sequence up to MAXN for
   two instances of the mechanism: a range cache that is consulted only when the query is inside the cached range
   (KIND = "sound": law holds) and one whose first miss poisons it (KIND = "poison": TLC refutes the law -- the
   negative control, the shape of the defect repaired in lib/tzraw.c). *)
EXTENDS Integers, Sequences, TLC
CONSTANTS INPUTS, MAXN, KIND
InputsDef == {-1, 0, 1, 2, 3}
\* a toy table: offset 10 before instant 2, 20 from 2 on
True(x) == IF x < 2 THEN 10 ELSE 20
H0 == [lo |-> 0, hi |-> 0, off |-> 0]
Hit(h, x) == h.lo <= x /\ x < h.hi
Out(h, x) == IF Hit(h, x) THEN h.off ELSE True(x)
Upd(h, x) == IF Hit(h, x) THEN h
             ELSE IF KIND = "poison" /\ x < 0 THEN [lo |-> -100, hi |-> 100, off |-> True(x)]
             ELSE IF x < 2 THEN [lo |-> -100, hi |-> 2, off |-> 10] ELSE [lo |-> 2, hi |-> 100, off |-> 20]
VARIABLES h, xs, outs
vars == <<h, xs, outs>>
Init == h = H0 /\ xs = <<>> /\ outs = <<>>
Step(x) == /\ Len(xs) < MAXN
           /\ outs' = Append(outs, Out(h, x)) /\ h' = Upd(h, x) /\ xs' = Append(xs, x)
Next == \E x \in INPUTS : Step(x)
Spec == Init /\ [][Next]_vars
RunOne(x) == Out(H0, x)
NoHiddenState == \A i \in 1..Len(xs) : outs[i] = RunOne(xs[i])
=============================================================================
