SPECIFICATION Spec
CONSTANTS DAY = 7
          LMAX = 13
INVARIANTS Monotone NoSkipped Within StartsAtFirst EndsAtLast TodBound
PROPERTIES Terminates
CHECK_DEADLOCK FALSE
