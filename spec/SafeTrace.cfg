SPECIFICATION TSpec
CONSTANTS
  MAXLEN = 0
  EMITLEN = 0
  PINNED = FALSE
POSTCONDITION Accepted
CHECK_DEADLOCK FALSE
