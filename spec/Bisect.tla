------------------------------- MODULE Bisect -------------------------------
(* (I) the table bisection find_before_* of lib/leaps.c (as repaired), one action per loop iteration.
   v is a strictly increasing 0-based array with a minimal and a maximal sentinel; the result for key k is
   the index of the last entry strictly below k (index 0 when there is none).
   TLC checks, for every table of up to NMAX entries over 0..VMAX and every key, Refines (the loop's answer is
   the declarative Want), Progress (the window shrinks in every iteration) and that the index stays in range.
   OLD = TRUE selects the pinned loop (stale index when the window collapses), which TLC refutes: negative control.
   Every (table, key, answer) is emitted and replayed on the real leaps_before_{si32,ui32,si64,ui64}. *)
EXTENDS Integers, Sequences, SequencesExt, FiniteSets, TLC, Json
CONSTANTS NMAX, VMAX, OLD
VARIABLES v, key, i, lo, hi, pc
vars == <<v, key, i, lo, hi, pc>>
StrictInc(s) == \A a \in 1..(Len(s) - 1) : s[a] < s[a + 1]
Tables == { SetToSortSeq(S \cup {0, VMAX}, LAMBDA a, b : a < b) : S \in { T \in SUBSET (1..(VMAX - 1)) : Cardinality(T) <= NMAX - 2 } }
At(k) == v[k + 1]
nv == Len(v)
\* callers: min = 0, max = nv - 1, this = max / 2
Init == /\ v \in Tables /\ key \in 0..VMAX
        /\ lo = 0 /\ hi = Len(v) - 1 /\ i = (Len(v) - 1) \div 2 /\ pc = "loop"
NewBody == /\ pc = "loop"
           /\ IF hi - lo > 1
                THEN LET m == lo + (hi - lo) \div 2 IN
                     /\ i' = m
                     /\ IF At(m) < key THEN lo' = m /\ hi' = hi ELSE hi' = m /\ lo' = lo
                     /\ pc' = "loop"
                ELSE i' = lo /\ pc' = "done" /\ UNCHANGED <<lo, hi>>
           /\ UNCHANGED <<v, key>>
OldBody == /\ pc = "loop"
           /\ LET l == At(i)
                  u == IF i + 1 < nv THEN At(i + 1) ELSE VMAX + 1
              IN IF key > l /\ key <= u THEN pc' = "done" /\ UNCHANGED <<i, lo, hi>>
                 ELSE IF key > u
                   THEN LET lo2 == i + 1  i2 == (i + hi) \div 2 IN
                        /\ lo' = lo2 /\ i' = i2 /\ hi' = hi
                        /\ pc' = IF hi > lo2 /\ i2 < nv THEN "loop" ELSE "done"
                   ELSE LET hi2 == i - 1  i2 == (i + lo) \div 2 IN
                        /\ hi' = hi2 /\ i' = i2 /\ lo' = lo
                        /\ pc' = IF hi2 > lo /\ i2 < nv THEN "loop" ELSE "done"
           /\ UNCHANGED <<v, key>>
Next == (IF OLD THEN OldBody ELSE NewBody) \/ (pc = "done" /\ UNCHANGED vars)
Spec == Init /\ [][Next]_vars
\* the declarative meaning: index of the last entry strictly before the key (0 if none)
Below == {k \in 0..(nv - 2) : At(k) < key}
Want == IF Below = {} THEN 0 ELSE CHOOSE k \in Below : \A j \in Below : j <= k
Refines == pc = "done" => i = Want
InRange == i >= 0 /\ i <= nv - 1
Progress == [][ (pc = "loop" /\ pc' = "loop" /\ ~OLD) => (hi' - lo' < hi - lo) ]_vars
Emit == pc = "done" => PrintT(ToJson([v |-> v, key |-> key, idx |-> i]))
=============================================================================
