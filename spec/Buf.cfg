SPECIFICATION Spec
CONSTANTS
  MAXTOK = 3
  MAXBSZ = 14
  GUARDED = TRUE
INVARIANTS Within Emit
CHECK_DEADLOCK FALSE
