----------------------------- MODULE LeapsTrace -----------------------------
(* Direction B for C14: events from the real code.
   Tai(t, off) / Gps(t, off)    zif_local_time on the TAI / GPS zone: off = result - t
   RDiff(a, b, dd, ds, r)       ddiff a b -f %rS printed r; dd, ds = b - a in days and seconds (re-encoding of a, b)
                                accepted iff r = dd*86400 + ds + LeapsBetween  (|r| < 2^31 by construction of the cases)
   TaiInv(x, u) / GpsInv(x, u)  zif_utc_time on the TAI / GPS zone: the clock reading x was taken to the UTC instant u; accepted iff
                                u shown on that clock is x again, or x is the reading of an inserted second (no UTC second has it) and
                                u is the first second after it
   RAdd(t, n, res)              dadd t +n rs printed res (as <<day, sod>>, sod = 86400 for 23:59:60) *)
EXTENDS Leaps, Json, IOUtils, TLCExt
VARIABLE l
Tr == ndJsonDeserialize(IOEnv.TRACE)
Ev == Tr[l]
TInit == l = 1 /\ dummy = 0
Le(a, b) == a[1] < b[1] \/ (a[1] = b[1] /\ a[2] <= b[2])
TTai == /\ l <= Len(Tr) /\ Ev.e = "Tai" /\ Ev.off = TaiOffs(Ev.t) /\ l' = l + 1 /\ UNCHANGED dummy
TGps == /\ l <= Len(Tr) /\ Ev.e = "Gps" /\ Ev.off = GpsOffs(Ev.t) /\ l' = l + 1 /\ UNCHANGED dummy
TRDiff == /\ l <= Len(Tr) /\ Ev.e = "RDiff"
          /\ Ev.r = Ev.dd * 86400 + Ev.ds + (TaiOffs(Ev.b) - TaiOffs(Ev.a))
          /\ l' = l + 1 /\ UNCHANGED dummy
TRAdd == /\ l <= Len(Tr) /\ Ev.e = "RAdd" /\ Ev.res = AddReal(Ev.t, Ev.n) /\ l' = l + 1 /\ UNCHANGED dummy
\* plain (civil) addition of n seconds to <<day, sod>>, |n| < 86400
Plus(t, n) == LET v == t[2] + n IN IF v >= 86400 THEN <<t[1] + 1, v - 86400>> ELSE IF v < 0 THEN <<t[1] - 1, v + 86400>> ELSE <<t[1], v>>
InvOk(x, u, Offs(_)) == \/ Plus(u, Offs(u)) = x
                        \/ (Plus(u, Offs(u)) = Plus(x, 1) /\ Offs(u) = Offs(Plus(u, -1)) + 1)
TTaiInv == /\ l <= Len(Tr) /\ Ev.e = "TaiInv" /\ InvOk(Ev.x, Ev.u, TaiOffs) /\ l' = l + 1 /\ UNCHANGED dummy
TGpsInv == /\ l <= Len(Tr) /\ Ev.e = "GpsInv" /\ InvOk(Ev.x, Ev.u, GpsOffs) /\ l' = l + 1 /\ UNCHANGED dummy
TNext == TTai \/ TGps \/ TRDiff \/ TRAdd \/ TTaiInv \/ TGpsInv
TSpec == TInit /\ [][TNext]_<<dummy, l>>
Accepted == TLCGet("stats").diameter - 1 = Len(Tr)
=============================================================================
