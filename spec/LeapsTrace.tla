----------------------------- MODULE LeapsTrace -----------------------------
(* Direction B for C14: events from the real code.
   Tai(t, off) / Gps(t, off)    zif_local_time on the TAI / GPS zone: off = result - t
   RDiff(a, b, dd, ds, r)       ddiff a b -f %rS printed r; dd, ds = b - a in days and seconds (re-encoding of a, b)
                                accepted iff r = dd*86400 + ds + LeapsBetween  (|r| < 2^31 by construction of the cases)
   RAdd(t, n, res)              dadd t +n rs printed res (as <<day, sod>>, sod = 86400 for 23:59:60) *)
EXTENDS Leaps, Json, IOUtils, TLCExt
VARIABLE l
Tr == ndJsonDeserialize(IOEnv.TRACE)
Ev == Tr[l]
TInit == l = 1 /\ dummy = 0
Le(a, b) == a[1] < b[1] \/ (a[1] = b[1] /\ a[2] <= b[2])
TTai == /\ l <= Len(Tr) /\ Ev.e = "Tai" /\ Ev.off = TaiOffs(Ev.t) /\ l' = l + 1 /\ UNCHANGED dummy
TGps == /\ l <= Len(Tr) /\ Ev.e = "Gps" /\ Ev.off = GpsOffs(Ev.t) /\ l' = l + 1 /\ UNCHANGED dummy
TRDiff == /\ l <= Len(Tr) /\ Ev.e = "RDiff"
          /\ Ev.r = Ev.dd * 86400 + Ev.ds + (TaiOffs(Ev.b) - TaiOffs(Ev.a))
          /\ l' = l + 1 /\ UNCHANGED dummy
TRAdd == /\ l <= Len(Tr) /\ Ev.e = "RAdd" /\ Ev.res = AddReal(Ev.t, Ev.n) /\ l' = l + 1 /\ UNCHANGED dummy
TNext == TTai \/ TGps \/ TRDiff \/ TRAdd
TSpec == TInit /\ [][TNext]_<<dummy, l>>
Accepted == TLCGet("stats").diameter - 1 = Len(Tr)
=============================================================================
