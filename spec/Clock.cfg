SPECIFICATION Spec
CONSTANTS D = 6
          KMAX = 60
          NOSPLIT = FALSE
INVARIANTS Refines Inverse EpochRT MilOK
CHECK_DEADLOCK FALSE
