SPECIFICATION Spec
CONSTANTS MAXCNT = 1
          CHECKED = FALSE
          FULL = FALSE
INVARIANTS Safe
CHECK_DEADLOCK FALSE
