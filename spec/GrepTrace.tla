------------------------------ MODULE GrepTrace ------------------------------
(* Direction B for C17: one execution = one dgrep invocation.
   Reset(tree, inv)           the expression tree (as emitted by Expr) and whether -v was given
   Line(val, hasdate, printed, intact)   one input line: val = truth values of the atoms for the line's date
                              accepted iff printed <=> (hasdate /\ Eval(tree, val)) (<=> ~(...) with -v), printed unchanged
   End(rc, inorder, extra)    output lines appeared in input order, nothing else was printed, no crash (rc in {0,1}) *)
EXTENDS Expr, IOUtils, TLCExt
VARIABLES l, inv
Tr == ndJsonDeserialize(IOEnv.TRACE)
Ev == Tr[l]
TInit == l = 1 /\ inv = FALSE /\ tree = Val(1, FALSE)
TReset == /\ l <= Len(Tr) /\ Ev.e = "Reset" /\ tree' = Ev.tree /\ inv' = Ev.inv /\ l' = l + 1
ValOf(s) == [a \in Atoms |-> s[a]]
Selected(e) == IF inv THEN ~(e.hasdate /\ Eval(tree, ValOf(e.val))) ELSE e.hasdate /\ Eval(tree, ValOf(e.val))
TLine == /\ l <= Len(Tr) /\ Ev.e = "Line"
         /\ Ev.printed = Selected(Ev) /\ (Ev.printed => Ev.intact)
         /\ l' = l + 1 /\ UNCHANGED <<tree, inv>>
TEnd == /\ l <= Len(Tr) /\ Ev.e = "End" /\ Ev.rc \in {0, 1} /\ Ev.inorder /\ Ev.extra = 0
        /\ l' = l + 1 /\ UNCHANGED <<tree, inv>>
TNext == TReset \/ TLine \/ TEnd
TSpec == TInit /\ [][TNext]_<<l, inv, tree>>
Accepted == TLCGet("stats").diameter - 1 = Len(Tr)
=============================================================================
