SPECIFICATION TSpec
CONSTANTS LOCS = {"de_DE"}
          MAXOPS = 4
          CROSS = FALSE
POSTCONDITION Accepted
CHECK_DEADLOCK FALSE
