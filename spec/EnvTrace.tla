------------------------------- MODULE EnvTrace -------------------------------
(* C20 (environment part), self-composition: Cmd(id) starts a group of runs of ONE tool invocation under different
   environments (TZ, LANG, LC_ALL, LC_TIME, wall clock); Run(env, out, rc) is one of them (out = digest of stdout).
   Accepted iff all runs of a group agree in output and exit status: the result is a function of the arguments alone. *)
EXTENDS Integers, Sequences, Json, IOUtils, TLCExt, TLC
VARIABLES l, first
Tr == ndJsonDeserialize(IOEnv.TRACE)
Ev == Tr[l]
TInit == l = 1 /\ first = <<>>
TCmd == l <= Len(Tr) /\ Ev.e = "Cmd" /\ first' = <<>> /\ l' = l + 1
TRun == /\ l <= Len(Tr) /\ Ev.e = "Run"
        /\ IF first = <<>> THEN first' = <<Ev.out, Ev.rc>> ELSE (first = <<Ev.out, Ev.rc>> /\ first' = first)
        /\ l' = l + 1
TNext == TCmd \/ TRun
TSpec == TInit /\ [][TNext]_<<l, first>>
Accepted == TLCGet("stats").diameter - 1 = Len(Tr)
=============================================================================
