SPECIFICATION Spec
CONSTANTS NATOM = 3
          MAXLEAF = 4
          OLD = FALSE
INVARIANTS Refines PushedDown Emit
CHECK_DEADLOCK FALSE
