SPECIFICATION TSpec
CONSTANTS D = 86400
          KMAX = 1
          NOSPLIT = FALSE
POSTCONDITION Accepted
CHECK_DEADLOCK FALSE
