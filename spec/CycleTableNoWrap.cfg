SPECIFICATION Spec
CONSTANTS ALPHA = 2
          WRAP = 3
          MAXCALLS = 8
          NOWRAP = TRUE
INVARIANTS Membership
CHECK_DEADLOCK FALSE
