------------------------------ MODULE Calendar ------------------------------
(* The day chain: the proleptic Gregorian calendar as the behaviour
   Init /\ [][NextDay]_vars, from 1582-10-15 (first Gregorian day, Lilian day 0 in dateutils' counting, a Friday)
   to YLAST-12-31.  Every representation dateutils knows is carried as incrementally
   maintained state and tied to its closed form by an invariant, so the chain that is
   emitted (and replayed into the C code) has two independent derivations. *)
EXTENDS Greg, HijriTab, Sequences, TLC
CONSTANTS YLAST      \* last year of the chain (4095)

VARIABLES n,   \* Rata Die
          y, m, d, wd, yd,
          iy, iw,              \* ISO year/week, maintained incrementally
          wU, wW,              \* %U (Sunday based) and %W (Monday based) week counts
          c,                   \* count of this weekday within the month (ymcw)
          bdm,                 \* Mon-Fri days of this month up to and including today
          bcum,                \* Mon-Fri days since the start of the chain (inclusive)
          hk, hd               \* Umm-al-Qura: month index into HBOM (0 = outside the table), day
vars == <<n,y,m,d,wd,yd,iy,iw,wU,wW,c,bdm,bcum,hk,hd>>

\* dateutils' Lilian day number counts days *since* the reference date 15 Oct 1582 (info/dateutils.texi:
\* "its reference date is the first day of the Gregorian calendar"; pinned by test/dconv.093: 2012-01-01 = 156767)
ldn == n - RD1582
daisy == n - RD1601 + 1
mdn == n + 366                  \* Matlab datenum: 0000-01-01 = 1
jdn2 == 2 * n + 3442849         \* twice the Julian day number at 00:00 (JDN ends in .5)
uday == n - RD1970              \* Unix day

\* Mon-Fri days among Rata Die 1..r (RD 1 is a Monday)
BizUpToRD(r) == 5 * (r \div 7) + (IF r % 7 > 5 THEN 5 ELSE r % 7)

(* The chain is started at 1582-10-15 and, so that TLC can explore it with many workers,
   also at 1 January of every SEGth year outside the Umm-al-Qura table, with every variable
   given by its closed form.  A segment that runs into the next segment's initial state finds
   it already known (all variables equal), so the reachable set is one connected chain iff the
   number of distinct states equals the number of days 1582-10-15 .. YLAST-12-31 -- which the
   orchestrator checks against an independent count (917,933 for YLAST = 4095). *)
SEG == 40
SegStart(Y) == Y % SEG = 0 /\ (Y <= 1900 \/ Y >= 2030)
InitFirst == /\ y = 1582 /\ m = 10 /\ d = 15 /\ wd = 5
             /\ n = RD1582 /\ yd = 288
             /\ iy = 1582 /\ iw = 41
             /\ wU = 41 /\ wW = 41
             /\ c = 3 /\ bdm = 11 /\ bcum = 1
             /\ hk = 0 /\ hd = 0
InitSeg == \E Y \in 1583..YLAST :
             /\ SegStart(Y)
             /\ y = Y /\ m = 1 /\ d = 1 /\ yd = 1
             /\ n = RD(Y, 1, 1) /\ wd = WdOfRD(RD(Y, 1, 1))
             /\ iy = IsoOf(Y, 1, WdOfRD(RD(Y, 1, 1)))[1] /\ iw = IsoOf(Y, 1, WdOfRD(RD(Y, 1, 1)))[2]
             /\ wU = (IF WdOfRD(RD(Y, 1, 1)) = 7 THEN 1 ELSE 0)
             /\ wW = (IF WdOfRD(RD(Y, 1, 1)) = 1 THEN 1 ELSE 0)
             /\ c = 1 /\ bdm = (IF WdOfRD(RD(Y, 1, 1)) <= 5 THEN 1 ELSE 0)
             /\ bcum = BizUpToRD(RD(Y, 1, 1)) - BizUpToRD(RD1582 - 1)
             /\ hk = 0 /\ hd = 0
Init == InitFirst \/ InitSeg

NewYear == m = 12 /\ d = 31
NextDay ==
  /\ ~(y = YLAST /\ NewYear)
  /\ n' = n + 1
  /\ wd' = (wd % 7) + 1
  /\ IF d < MLen(y, m) THEN y' = y /\ m' = m /\ d' = d + 1 /\ yd' = yd + 1
     ELSE IF m < 12 THEN y' = y /\ m' = m + 1 /\ d' = 1 /\ yd' = yd + 1
     ELSE y' = y + 1 /\ m' = 1 /\ d' = 1 /\ yd' = 1
  \* ISO week: changes on Mondays only; the new week belongs to the year of its Thursday
  /\ IF wd' = 1
     THEN LET thuY == IF yd' + 3 > YLen(y') THEN y' + 1 ELSE y' IN
          IF thuY # iy THEN iy' = thuY /\ iw' = 1 ELSE iy' = iy /\ iw' = iw + 1
     ELSE UNCHANGED <<iy, iw>>
  \* %U: week of year, weeks start Sunday, days before first Sunday are week 0
  /\ wU' = IF yd' = 1 THEN (IF wd' = 7 THEN 1 ELSE 0) ELSE (IF wd' = 7 THEN wU + 1 ELSE wU)
  /\ wW' = IF yd' = 1 THEN (IF wd' = 1 THEN 1 ELSE 0) ELSE (IF wd' = 1 THEN wW + 1 ELSE wW)
  \* ymcw count: the k-th occurrence of today's weekday in this month
  /\ c' = IF d' <= 7 THEN 1 ELSE IF d' <= 14 THEN 2 ELSE IF d' <= 21 THEN 3 ELSE IF d' <= 28 THEN 4 ELSE 5
  /\ bdm' = (IF d' = 1 THEN 0 ELSE bdm) + (IF wd' <= 5 THEN 1 ELSE 0)
  /\ bcum' = bcum + (IF wd' <= 5 THEN 1 ELSE 0)
  \* Umm-al-Qura: enter the table on its first month begin, advance on month begins,
  \* leave it 29 days after the last listed month begin (every month has >= 29 days)
  /\ LET l == ldn + 1 IN
     IF hk = 0
       THEN IF l = HBOM[1] THEN hk' = 1 /\ hd' = 1 ELSE hk' = 0 /\ hd' = 0
     ELSE IF hk < HNMON
       THEN IF l = HBOM[hk + 1] THEN hk' = hk + 1 /\ hd' = 1 ELSE hk' = hk /\ hd' = hd + 1
     ELSE IF hd < 29 THEN hk' = hk /\ hd' = hd + 1 ELSE hk' = 0 /\ hd' = 0

Spec == Init /\ [][NextDay]_vars

hy == IF hk = 0 THEN 0 ELSE HBASE + (hk - 1) \div 12
hm == IF hk = 0 THEN 0 ELSE ((hk - 1) % 12) + 1

\* ---------- invariants: incremental state == closed forms ----------
InvRD    == n = RD(y, m, d)
InvWd    == wd = WdOfRD(n)
InvYd    == yd = CumDays(y, m) + d
InvIso   == <<iy, iw>> = IsoOf(y, yd, wd) /\ n = IsoRD(iy, iw, wd)
InvU     == wU = (yd + 6 - (wd % 7)) \div 7
InvW     == wW = (yd + 6 - ((wd + 6) % 7)) \div 7
InvC     == c = (d - 1) \div 7 + 1 /\ d = NthWdOfMonth(y, m, c, wd) /\ c <= WdCountInMonth(y, m, wd)
InvBdm   == bdm = BizDaysUpTo(y, m, d)
InvBcum  == bcum = BizUpToRD(n) - BizUpToRD(RD1582 - 1)
InvHij   == hk # 0 => /\ HBOM[hk] + hd - 1 = ldn
                      /\ hd >= 1 /\ hd <= 30
                      /\ (hk < HNMON => ldn < HBOM[hk + 1])
InvHijIn == (ldn >= HBOM[1] /\ ldn < HBOM[HNMON] + 29) <=> hk # 0
\* consecutive days map to consecutive values in every calendar (C02): the value of each calendar at n+1,
\* taken back to the timeline by that calendar's own closed form, is one more than at n -- which makes every
\* projection injective, hence every round trip through it the identity
SuccProps == [][ /\ RD(y', m', d') = RD(y, m, d) + 1
                 /\ IsoRD(iy', iw', wd') = IsoRD(iy, iw, wd) + 1
                 /\ RDJan0(y') + yd' = RDJan0(y) + yd + 1
                 /\ RD(y', m', NthWdOfMonth(y', m', c', wd')) = RD(y, m, NthWdOfMonth(y, m, c, wd)) + 1
                 /\ (hk # 0 /\ hk' # 0) => HBOM[hk'] + hd' = HBOM[hk] + hd + 1
                 /\ bcum' - bcum = (IF wd' <= 5 THEN 1 ELSE 0) ]_vars
\* anchors (facts of the outside world, independent of both formulations)
Anchors  == /\ (y = 1970 /\ m = 1 /\ d = 1) => (wd = 4 /\ ldn = 141427 /\ mdn = 719529 /\ uday = 0) \* Thursday; MDN 719529
            /\ (y = 2000 /\ m = 1 /\ d = 1) => (wd = 6 /\ jdn2 = 4903089) \* Sat, JDN 2451544.5
            /\ (y = 1601 /\ m = 1 /\ d = 1) => (wd = 1 /\ daisy = 1)
            /\ (y = 2012 /\ m = 1 /\ d = 1) => (iy = 2011 /\ iw = 52)
            /\ (y = 2026 /\ m = 10 /\ d = 2) => (wd = 5 /\ iw = 40)
            /\ (y = 2012 /\ m = 3 /\ d = 8) => (wd = 4 /\ c = 2 /\ bdm = 6 /\ yd = 68 /\ iw = 10)
            /\ (y = 2024 /\ m = 7 /\ d = 7) => (hy = 1446 /\ hm = 1 /\ hd = 1)    \* 1 Muharram 1446
            /\ (y = 1900 /\ m = 4 /\ d = 30) => (hy = 1318 /\ hm = 1 /\ hd = 1)
Emit == PrintT(<<"D", ldn, y, m, d, wd, yd, iy, iw, wU, wW, c, bdm, bcum, hy, hm, hd>>)
=============================================================================
