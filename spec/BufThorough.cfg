SPECIFICATION Spec
CONSTANTS
  MAXTOK = 4
  MAXBSZ = 24
  GUARDED = TRUE
INVARIANTS Within Emit
CHECK_DEADLOCK FALSE
