------------------------------- MODULE Duration -------------------------------
(* (S) the refinement rule of datediff output (C06).  A non-negative duration is <<D, s>>: D whole days and s seconds
   (0 <= s < 86400).  A format asks for a subset U of the fixed-length units {w, d, H, M, S}; Split gives each requested
   unit its value greedily from the coarsest requested unit down: the coarsest unit carries everything above it, every
   refined unit stays inside its natural range, what is finer than the finest requested unit is dropped (truncation
   toward zero).  TLC checks on boundary totals that
     Recombine  the values recombine to the total truncated to a whole number of the finest requested unit
     InRange    H < 24 under days/weeks, M < 60 under hours, S < 60 under minutes, d < 7 under weeks
     Plain      {S} gives the plain number of seconds, {d} the plain number of days
   DurationTrace.tla applies Split to the numbers printed by the real ddiff. *)
EXTENDS Integers, Sequences, FiniteSets, TLC
Units == {"w", "d", "H", "M", "S"}
SecsOf(u) == CASE u = "S" -> 1 [] u = "M" -> 60 [] u = "H" -> 3600 [] u = "d" -> 86400 [] u = "w" -> 604800
\* values as a record over all five units (0 for units not asked for)
Split(D, s, U) ==
  LET w == IF "w" \in U THEN D \div 7 ELSE 0
      D1 == IF "w" \in U THEN D % 7 ELSE D
      d == IF "d" \in U THEN D1 ELSE 0
      c1 == IF "d" \in U THEN s ELSE D1 * 86400 + s          \* seconds still to be distributed
      H == IF "H" \in U THEN c1 \div 3600 ELSE 0
      c2 == IF "H" \in U THEN c1 % 3600 ELSE c1
      M == IF "M" \in U THEN c2 \div 60 ELSE 0
      c3 == IF "M" \in U THEN c2 % 60 ELSE c2
      S == IF "S" \in U THEN c3 ELSE 0
  IN [w |-> w, d |-> d, H |-> H, M |-> M, S |-> S]
(* the same function written so that no intermediate value exceeds the largest printed one (the whole-days part is folded into the
   coarsest requested time unit by multiplication, never into seconds first): used by DurationTrace on spans beyond 2^31 seconds, where the
   total in seconds leaves TLC's 32-bit integers; SplitSame (below) shows it equal to Split *)
Split2(D, s, U) ==
  LET w == IF "w" \in U THEN D \div 7 ELSE 0
      D1 == IF "w" \in U THEN D % 7 ELSE D
      d == IF "d" \in U THEN D1 ELSE 0
      R == IF "d" \in U THEN 0 ELSE D1                      \* whole days still to be carried by a time unit
      H == IF "H" \in U THEN R * 24 + s \div 3600 ELSE 0
      R2 == IF "H" \in U THEN 0 ELSE R
      s2 == IF "H" \in U THEN s % 3600 ELSE s
      M == IF "M" \in U THEN R2 * 1440 + s2 \div 60 ELSE 0
      R3 == IF "M" \in U THEN 0 ELSE R2
      s3 == IF "M" \in U THEN s2 % 60 ELSE s2
      S == IF "S" \in U THEN R3 * 86400 + s3 ELSE 0
  IN [w |-> w, d |-> d, H |-> H, M |-> M, S |-> S]
Total(D, s) == D * 86400 + s
Recomb(v) == v.w * 604800 + v.d * 86400 + v.H * 3600 + v.M * 60 + v.S
Finest(U) == IF "S" \in U THEN 1 ELSE IF "M" \in U THEN 60 ELSE IF "H" \in U THEN 3600 ELSE IF "d" \in U THEN 86400 ELSE 604800

VARIABLES D, s, U
vars == <<D, s, U>>
Init == /\ D \in {0, 1, 6, 7, 8, 13, 14, 30, 365, 24854}
        /\ s \in {0, 1, 59, 60, 61, 3599, 3600, 3601, 43200, 86399}
        /\ U \in (SUBSET Units) \ {{}}
Next == UNCHANGED vars
Spec == Init /\ [][Next]_vars
Recombine == LET v == Split(D, s, U) IN Recomb(v) = Total(D, s) - (Total(D, s) % Finest(U))
\* a refined unit stays below one of the next coarser REQUESTED unit
Coarser(u) == {c \in U : SecsOf(c) > SecsOf(u)}
NextCoarser(u) == CHOOSE c \in Coarser(u) : \A e \in Coarser(u) : SecsOf(c) <= SecsOf(e)
InRange == LET v == Split(D, s, U) IN
             \A u \in U : Coarser(u) # {} => v[u] * SecsOf(u) < SecsOf(NextCoarser(u))
SplitSame == Split2(D, s, U) = Split(D, s, U)
Plain == /\ (U = {"S"} => Split(D, s, U).S = Total(D, s))
         /\ (U = {"d"} => Split(D, s, U).d = D)
=============================================================================
