------------------------------- MODULE Chunk -------------------------------
(* Stream filters are transparent and independent of input chunking (C18).
   (S) LinesOf: the lines of a byte stream -- contents only; a line ends with \n or \r\n, the last line may be unterminated.
   (I) a transcription of src/prchunk.c: prchunk_fill (a coroutine: window buffer of W bytes, line table of L entries,
   read() in chunks of at most K bytes, tail moved to the front on refill) and the consumer loop all tools use
   -- while prchunk_haslinep do prchunk_getline.  read() may return ANY 1..K bytes while data remains and 0 at EOF, so
   TLC explores every way of cutting the stream into read() results.  Transparent: at EOF the delivered lines are
   LinesOf(stream) -- none lost, duplicated, split or merged; NoOverflow: nothing is read beyond the window.
   The constants keep the inequalities of the real ones (K <= L and K | W).  Every terminal state is emitted (stream,
   schedule, delivered lines) and replayed on the real reader compiled at model scale (guarded hook: VERIF_PRCH_NLINES, _LLEN, _CHUNK);
   the verdict is taken against LinesOf, this transcription only supplies the scenarios.
   bytes: "x" ordinary, "n" newline, "r" carriage return *)
EXTENDS Integers, Sequences, TLC, Json
CONSTANTS W,      \* window size in bytes (MAP_LEN)
          L,      \* MAX_NLINES
          K,      \* CHUNK_SIZE
          MAXLEN  \* max stream length
Bytes == {"x", "n", "r"}
RECURSIVE SeqsUpTo(_)
SeqsUpTo(k) == IF k = 0 THEN {<<>>} ELSE SeqsUpTo(k-1) \cup { Append(s, b) : s \in { t \in SeqsUpTo(k-1) : Len(t) = k-1 }, b \in Bytes }

VARIABLES stream, pos,       \* the input and how much of it has been read()
          buf,               \* window contents, 0-based function as sequence of length W (padding "?")
          bno, off,          \* ctx->bno, ctx->off
          totl, curl, loff,  \* tot_lno, cur_lno, loff[] (end offset, cr flag)
          lb, lo, nrd,       \* locals of prchunk_fill: bno pointer, off pointer, last read result
          pc, out, ovf,
          sched              \* history: the sizes read() returned, in order (the schedule)
vars == <<stream,pos,buf,bno,off,totl,curl,loff,lb,lo,nrd,pc,out,ovf,sched>>

Init == /\ stream \in SeqsUpTo(MAXLEN) /\ pos = 0
        /\ buf = [i \in 0..(W-1) |-> "?"] /\ bno = 0 /\ off = 0
        /\ totl = 0 /\ curl = 0 /\ loff = <<>>
        /\ lb = 0 /\ lo = 0 /\ nrd = 0 /\ pc = "fill" /\ out = <<>> /\ ovf = FALSE /\ sched = <<>>

\* ---- reference: the lines of a stream, contents only, terminator \n or \r\n, last may be unterminated
RECURSIVE LinesOf(_, _)
LinesOf(s, cur) ==
  IF s = <<>> THEN (IF cur = <<>> THEN <<>> ELSE <<cur>>)
  ELSE IF Head(s) = "n"
       THEN LET c == IF cur # <<>> /\ cur[Len(cur)] = "r" THEN SubSeq(cur, 1, Len(cur)-1) ELSE cur
            IN <<c>> \o LinesOf(Tail(s), <<>>)
       ELSE LinesOf(Tail(s), Append(cur, Head(s)))

Slice(f, a, b) == [i \in 1..(b-a) |-> f[a + i - 1]]   \* bytes a..b-1 of the window as a sequence

\* ---- prchunk_fill ----
FillStart ==
  /\ pc = "fill"
  /\ totl' = 0 /\ loff' = <<>> /\ lo' = 0
  /\ IF bno = 0 THEN buf' = buf /\ bno' = bno /\ lb' = bno /\ pc' = "y1"
     ELSE IF bno > off
       THEN LET rsz == bno - off IN
            /\ buf' = [i \in 0..(W-1) |-> IF i < rsz THEN buf[off + i] ELSE buf[i]]
            /\ bno' = rsz /\ lb' = rsz /\ pc' = "y1"
     ELSE IF bno = off THEN buf' = buf /\ bno' = 0 /\ lb' = 0 /\ pc' = "y1"
     ELSE buf' = buf /\ bno' = bno /\ lb' = lb /\ pc' = "eof"
  /\ UNCHANGED <<stream,pos,off,curl,nrd,out,ovf,sched>>

Y1 ==  \* read a chunk: any 1..K bytes while data remains, 0 at EOF
  /\ pc = "y1"
  /\ \E r \in 0..K :
       /\ (IF pos = Len(stream) THEN r = 0 ELSE r >= 1 /\ r <= Len(stream) - pos)
       /\ nrd' = r /\ sched' = Append(sched, r)
       /\ IF lb + r > W THEN ovf' = TRUE /\ buf' = buf   \* write beyond the window
          ELSE ovf' = ovf /\ buf' = [i \in 0..(W-1) |-> IF i >= lb /\ i < lb + r THEN stream[pos + (i - lb) + 1] ELSE buf[i]]
       /\ pos' = pos + r /\ lb' = lb + r
       /\ LET b == lb + r IN
          IF lb + r > W
          THEN \* the read went beyond the window: the real reader has left its buffer, the model stops here
               /\ pc' = "eof" /\ UNCHANGED <<loff, lo, totl>>
          ELSE
          IF r = 0 /\ lo < b /\ curl <= totl
          THEN /\ loff' = Append(loff, <<b, FALSE>>) /\ lo' = b /\ totl' = totl + 1
               /\ pc' = (IF totl + 1 >= L THEN "y3" ELSE "y4")
          ELSE /\ UNCHANGED <<loff, lo, totl>>
               /\ IF r <= 0 /\ lo = 0 THEN pc' = (IF bno = 0 THEN "eof" ELSE "y2")
                  ELSE IF lo < b \/ lo = 0 THEN pc' = "y2" ELSE pc' = "y3"
  /\ UNCHANGED <<stream,bno,off,curl,out>>

Y2 ==  \* scan one line (one loop iteration per step)
  /\ pc = "y2"
  /\ IF lo < lb
     THEN LET idx == { i \in lo..(lb-1) : buf[i] = "n" } IN
          IF idx = {} THEN (IF nrd > 0 THEN pc' = "y1" ELSE pc' = "eof") /\ UNCHANGED <<loff,lo,totl,buf>>
          ELSE LET p == CHOOSE i \in idx : \A j \in idx : i <= j
                   cr == p > 0 /\ buf[p-1] = "r" IN
               /\ loff' = Append(loff, <<p, cr>>)
               /\ buf' = [buf EXCEPT ![p] = "0", ![IF cr THEN p-1 ELSE p] = "0"]
               /\ lo' = p + 1 /\ totl' = totl + 1
               /\ pc' = (IF totl + 1 >= L THEN "y3" ELSE "y2")
     ELSE pc' = "y1" /\ UNCHANGED <<loff,lo,totl,buf>>
  /\ UNCHANGED <<stream,pos,bno,off,curl,lb,nrd,out,ovf,sched>>

Y3 == /\ pc = "y3" /\ curl' = 0 /\ pc' = "y4"
      /\ UNCHANGED <<stream,pos,buf,bno,off,totl,loff,lb,lo,nrd,out,ovf,sched>>
Y4 == /\ pc = "y4" /\ off' = lo /\ bno' = lb /\ pc' = "consume"
      /\ UNCHANGED <<stream,pos,buf,totl,curl,loff,lb,lo,nrd,out,ovf,sched>>

\* ---- consumer: for (; prchunk_haslinep(); ) prchunk_getline ----
LineStart(k) == IF k = 0 THEN 0 ELSE loff[k][1] + 1          \* k 0-based line number
LineEnd(k) == loff[k+1][1] - (IF loff[k+1][2] THEN 1 ELSE 0)
Consume ==
  /\ pc = "consume"
  /\ IF curl < totl \/ curl = 0
     THEN /\ out' = Append(out, IF curl < totl THEN Slice(buf, LineStart(curl), LineEnd(curl)) ELSE <<"BOGUS">>)
          /\ curl' = curl + 1 /\ pc' = "consume"
     ELSE /\ pc' = "fill" /\ UNCHANGED <<out, curl>>
  /\ UNCHANGED <<stream,pos,buf,bno,off,totl,loff,lb,lo,nrd,ovf,sched>>

Next == FillStart \/ Y1 \/ Y2 \/ Y3 \/ Y4 \/ Consume
Spec == Init /\ [][Next]_vars /\ WF_vars(Next)

NoOverflow == ~ovf
Emit == pc = "eof" => PrintT(ToJson([s |-> stream, sc |-> sched, out |-> out, ovf |-> ovf, want |-> LinesOf(stream, <<>>)]))
Transparent == pc = "eof" => out = LinesOf(stream, <<>>)
Terminates == <>(pc = "eof")
=============================================================================
