----------------------------- MODULE ClockTrace -----------------------------
(* Direction B for C11: tool runs.  Values are <<chain day, second of day>>; D = 86400.
   Add(t, n, unit, res)   dadd T +n<unit>  printed res            accepted iff res = AddS(t, n * unit)  (n*unit split so
                          that no product exceeds 32 bits: n = q * 86400 + r is logged as dq, dr by the orchestrator)
   Diff(a, b, dd, ds, r)  ddiff A B -f %S printed r = dd*86400 + ds   (pairs closer than 2^31 s) or, far pairs,
                          rd/rs = r split by 86400
   EpochOut(t, ed, es)    dconv -f %s printed ed*86400 + es
   EpochIn(ed, es, t)     dconv -i %s / @N printed the civil t
   Mil(day, res)          DAYT24:00:00 printed res *)
EXTENDS Clock, Json, IOUtils, TLCExt, Sequences
VARIABLE l
Tr == ndJsonDeserialize(IOEnv.TRACE)
Ev == Tr[l]
TInit == l = 1 /\ day = 0 /\ sod = 0 /\ k = 0
Norm(dd, ss) == << dd + (ss \div D), ss % D >>
Step == l' = l + 1 /\ UNCHANGED vars
TAdd == /\ l <= Len(Tr) /\ Ev.e = "Add"
        /\ Ev.res = Norm(Ev.t[1] + Ev.dq, Ev.t[2] + Ev.dr) /\ Step
TDiff == /\ l <= Len(Tr) /\ Ev.e = "Diff"
         /\ Norm(Ev.rd, Ev.rs) = Norm(Ev.b[1] - Ev.a[1], Ev.b[2] - Ev.a[2]) /\ Step
TEpochOut == /\ l <= Len(Tr) /\ Ev.e = "EpochOut" /\ Norm(Ev.ed, Ev.es) = <<Ev.t[1] - Ev.u0, Ev.t[2]>> /\ Step
TEpochIn == /\ l <= Len(Tr) /\ Ev.e = "EpochIn" /\ Norm(Ev.ed + Ev.u0, Ev.es) = Ev.t /\ Step
TMil == /\ l <= Len(Tr) /\ Ev.e = "Mil" /\ Ev.res = <<Ev.day + 1, 0>> /\ Step
TNext == TAdd \/ TDiff \/ TEpochOut \/ TEpochIn \/ TMil
TSpec == TInit /\ [][TNext]_<<vars, l>>
Accepted == TLCGet("stats").diameter - 1 = Len(Tr)
=============================================================================
