SPECIFICATION Spec
CONSTANTS
  ALPHA = {92, 97, 99, 110, 118, 119, 96, 37}
  MAXLEN = 3
  HI = 119
INVARIANTS Safe NoNul Meaning
PROPERTY Finishes
CHECK_DEADLOCK FALSE
