-------------------------------- MODULE Greg --------------------------------
(* Pure operators of the proleptic Gregorian calendar and ISO 8601.
   Everything here is definitional (closed form); Calendar.tla ties these closed
   forms to the incremental "next day" behaviour by TLC invariants. *)
EXTENDS Integers

IsLeap(yy) == (yy % 4 = 0) /\ ((yy % 100 # 0) \/ (yy % 400 = 0))
MLen(yy, mm) == IF mm = 2 THEN (IF IsLeap(yy) THEN 29 ELSE 28)
                ELSE IF mm \in {4,6,9,11} THEN 30 ELSE 31
YLen(yy) == IF IsLeap(yy) THEN 366 ELSE 365
\* days before Jan 1 of year yy, counted from 0001-01-01 = day 1 (Rata Die)
RDJan0(yy) == 365 * (yy - 1) + (yy - 1) \div 4 - (yy - 1) \div 100 + (yy - 1) \div 400
CumDays(yy, mm) == CASE mm = 1 -> 0 [] mm = 2 -> 31
   [] OTHER -> LET base == CASE mm = 3 -> 59 [] mm = 4 -> 90 [] mm = 5 -> 120 [] mm = 6 -> 151
                      [] mm = 7 -> 181 [] mm = 8 -> 212 [] mm = 9 -> 243 [] mm = 10 -> 273
                      [] mm = 11 -> 304 [] mm = 12 -> 334
               IN base + (IF IsLeap(yy) THEN 1 ELSE 0)
RD(yy, mm, dd) == RDJan0(yy) + CumDays(yy, mm) + dd
\* weekday Mon=1..Sun=7 : RD 1 (0001-01-01) is a Monday
WdOfRD(r) == ((r - 1) % 7) + 1
Wd(yy, mm, dd) == WdOfRD(RD(yy, mm, dd))
\* ISO 8601: week 1 is the week with the year's first Thursday
IsoWeeksInYear(yy) == LET j1 == WdOfRD(RDJan0(yy) + 1)
                      IN IF j1 = 4 \/ (j1 = 3 /\ IsLeap(yy)) THEN 53 ELSE 52
IsoOf(yy, yday, w) ==
   LET wk == (yday - w + 10) \div 7
   IN IF wk < 1 THEN <<yy - 1, IsoWeeksInYear(yy - 1)>>
      ELSE IF wk > IsoWeeksInYear(yy) THEN <<yy + 1, 1>>
      ELSE <<yy, wk>>
\* Rata Die of ISO year/week/weekday: Monday of week 1 is the Monday on or before Jan 4
IsoRD(iy, iw, u) == LET j4 == RD(iy, 1, 4) IN (j4 - (WdOfRD(j4) - 1)) + 7 * (iw - 1) + (u - 1)

RD1601 == RD(1601, 1, 1)         \* daisy 1
RD1970 == RD(1970, 1, 1)         \* Unix day 0
RD1582 == RD(1582, 10, 15)       \* Lilian day 1

Quarter(mm) == (mm - 1) \div 3 + 1
ClampDay(yy, mm, dd) == IF dd > MLen(yy, mm) THEN MLen(yy, mm) ELSE dd
\* month arithmetic: <<year, month>> after adding k months
MonthAdd(yy, mm, k) == LET t == yy * 12 + (mm - 1) + k IN <<t \div 12, (t % 12) + 1>>

\* count of weekday w (Mon=1..Sun=7) occurrences in month yy-mm
WdCountInMonth(yy, mm, w) ==
   LET w1 == Wd(yy, mm, 1)                 \* weekday of the 1st
       first == 1 + ((w - w1 + 7) % 7)     \* day of month of the first w
   IN (MLen(yy, mm) - first) \div 7 + 1
\* day of month of the c-th weekday w in yy-mm (c clamped to the last existing one)
NthWdOfMonth(yy, mm, c, w) ==
   LET w1 == Wd(yy, mm, 1)
       first == 1 + ((w - w1 + 7) % 7)
       cc == IF c > WdCountInMonth(yy, mm, w) THEN WdCountInMonth(yy, mm, w) ELSE c
   IN first + 7 * (cc - 1)
\* number of Mon-Fri days among days 1..dd of month yy-mm
BizDaysUpTo(yy, mm, dd) ==
   LET w1 == Wd(yy, mm, 1)
       full == dd \div 7
       rem == dd % 7
       \* weekdays of the rem leftover days: w1 + 7*full .. i.e. w1, w1+1, ...
       extra == IF rem = 0 THEN 0 ELSE
                LET F[i \in 0..rem] == IF i = 0 THEN 0
                                       ELSE F[i-1] + (IF ((w1 - 1 + i - 1) % 7) + 1 <= 5 THEN 1 ELSE 0)
                IN F[rem]
   IN 5 * full + extra
=============================================================================
