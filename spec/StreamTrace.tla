----------------------------- MODULE StreamTrace -----------------------------
(* Direction B for C18: Start(n, want) -- the input has n lines, want[i] is the id of the tool's own single-line result
   for line i; Out(rc, got) -- the ids of the output lines of the run on the whole stream (0 = a line that is no
   single-line result at all).  Accepted iff the output is exactly the per-line image of the input, in order:
   nothing lost, duplicated, split, merged or invented, and the run did not crash. *)
EXTENDS Integers, Sequences, Json, IOUtils, TLCExt, TLC
VARIABLES l, want
Tr == ndJsonDeserialize(IOEnv.TRACE)
Ev == Tr[l]
TInit == l = 1 /\ want = <<>>
TStart == l <= Len(Tr) /\ Ev.e = "Start" /\ Len(Ev.want) = Ev.n /\ want' = Ev.want /\ l' = l + 1
TOut == /\ l <= Len(Tr) /\ Ev.e = "Out" /\ Ev.rc \in {0, 1, 2} /\ Ev.got = want /\ l' = l + 1 /\ UNCHANGED want
TNext == TStart \/ TOut
TSpec == TInit /\ [][TNext]_<<l, want>>
Accepted == TLCGet("stats").diameter - 1 = Len(Tr)
=============================================================================
