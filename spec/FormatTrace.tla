----------------------------- MODULE FormatTrace -----------------------------
(* Direction B for C09: recorded round trips of the real library (dt_strfdt then dt_strpdt) and of the dconv tool
   (dconv -f FMT V, then dconv -i FMT TEXT).  An event carries the format as token and separator lists, the value kind,
   the canonical value before (v) and after (p), the length of the text and how much of it the parser consumed.
   The event is accepted iff the format is in the property's scope ACCORDING TO Format.tla (Complete, Unamb2 evaluated by
   TLC on the recorded tokens -- not by the orchestrator) and the parse returned the value and consumed everything. *)
EXTENDS Format, IOUtils, TLCExt
VARIABLES l
Tr == ndJsonDeserialize(IOEnv.TRACE)
Ev == Tr[l]
InScope(ts, ss, k) == /\ Len(ts) >= 1 /\ Len(ss) = Len(ts) - 1
                      /\ \A i \in 1..Len(ts) : ts[i] \in DOMAIN Tok
                      /\ \A i, j \in 1..Len(ts) : i # j => Tok[ts[i]].f \cap Tok[ts[j]].f = {}
                      /\ Complete(Fields(ts), k)
                      /\ \A i \in 1..Len(ss) : Unamb2(ts[i], ss[i], ts[i + 1])
TInit == l = 1 /\ Init
TReset == l <= Len(Tr) /\ Ev.e = "Reset" /\ l' = l + 1 /\ toks' = <<>> /\ seps' = <<>> /\ kind' = kind
TRound == /\ l <= Len(Tr) /\ Ev.e = "Round"
          /\ InScope(Ev.t, Ev.s, Ev.k)
          /\ Ev.p = Ev.v /\ Ev.used = Ev.len /\ Ev.len > 0
          /\ toks' = Ev.t /\ seps' = Ev.s /\ kind' = Ev.k /\ l' = l + 1
\* default formats: the text printed without a format is read back by the format-less parser
TDefault == /\ l <= Len(Tr) /\ Ev.e = "Default"
            /\ Ev.p = Ev.v /\ Ev.used = Ev.len /\ Ev.len > 0
            /\ UNCHANGED vars /\ l' = l + 1
TNext == TReset \/ TRound \/ TDefault
TSpec == TInit /\ [][TNext]_<<vars, l>>
Accepted == TLCGet("stats").diameter - 1 = Len(Tr)
=============================================================================
