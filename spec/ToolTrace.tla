------------------------------ MODULE ToolTrace ------------------------------
(* Direction B for C13: one execution = a RunAll event (the tool run once on N inputs: the list of its N outputs and
   its per-input exit contribution) followed by N RunOne events (the same tool run on each input alone).
   Accepted iff every RunOne output equals the corresponding part of the RunAll output: RunAll = concat(RunOne), and
   (Done) the exit status of the N-input run is the maximum of the N single statuses: one bad or fixed-up input makes the run
   report 2, good inputs never do, wherever they stand. *)
EXTENDS Integers, Sequences, Json, IOUtils, TLCExt, TLC
VARIABLES l, all, arc, mx
Tr == ndJsonDeserialize(IOEnv.TRACE)
Ev == Tr[l]
TInit == l = 1 /\ all = <<>> /\ arc = 0 /\ mx = 0
TRunAll == /\ l <= Len(Tr) /\ Ev.e = "RunAll" /\ all' = Ev.outs /\ arc' = Ev.rc /\ mx' = 0 /\ l' = l + 1
TRunOne == /\ l <= Len(Tr) /\ Ev.e = "RunOne"
           /\ Ev.i >= 1 /\ Ev.i <= Len(all) /\ all[Ev.i] = Ev.out
           /\ mx' = (IF Ev.rc > mx THEN Ev.rc ELSE mx)
           /\ l' = l + 1 /\ UNCHANGED <<all, arc>>
TDone == /\ l <= Len(Tr) /\ Ev.e = "Done" /\ arc = mx /\ l' = l + 1 /\ UNCHANGED <<all, arc, mx>>
TNext == TRunAll \/ TRunOne \/ TDone
TSpec == TInit /\ [][TNext]_<<l, all, arc, mx>>
Accepted == TLCGet("stats").diameter - 1 = Len(Tr)
=============================================================================
