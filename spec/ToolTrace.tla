------------------------------ MODULE ToolTrace ------------------------------
(* Direction B for C13: one execution = a RunAll event (the tool run once on N inputs: the list of its N outputs and
   its per-input exit contribution) followed by N RunOne events (the same tool run on each input alone).
   Accepted iff every RunOne output equals the corresponding part of the RunAll output: RunAll = concat(RunOne). *)
EXTENDS Integers, Sequences, Json, IOUtils, TLCExt, TLC
VARIABLES l, all
Tr == ndJsonDeserialize(IOEnv.TRACE)
Ev == Tr[l]
TInit == l = 1 /\ all = <<>>
TRunAll == /\ l <= Len(Tr) /\ Ev.e = "RunAll" /\ all' = Ev.outs /\ l' = l + 1
TRunOne == /\ l <= Len(Tr) /\ Ev.e = "RunOne"
           /\ Ev.i >= 1 /\ Ev.i <= Len(all) /\ all[Ev.i] = Ev.out
           /\ l' = l + 1 /\ UNCHANGED all
TNext == TRunAll \/ TRunOne
TSpec == TInit /\ [][TNext]_<<l, all>>
Accepted == TLCGet("stats").diameter - 1 = Len(Tr)
=============================================================================
