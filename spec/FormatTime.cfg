SPECIFICATION Spec
CONSTANTS
  TOKS = {"%H","%-H","%I","%M","%S","%N","%p","%P","%T"}
  SEPS = {"", ":", " "}
  MAXTOK = 5
  KINDS = {"t"}
INVARIANTS GuessAgrees OneFamily Emit
CHECK_DEADLOCK FALSE
