SPECIFICATION Spec
CONSTANTS
  MAXTOK = 3
  MAXBSZ = 14
  GUARDED = FALSE
INVARIANTS Within
CHECK_DEADLOCK FALSE
