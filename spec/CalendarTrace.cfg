SPECIFICATION TSpec
CONSTANT YLAST = 4095
INVARIANTS InvRD InvWd InvYd InvIso InvU InvW InvC InvBdm InvBcum InvHij InvHijIn
POSTCONDITION Accepted
CHECK_DEADLOCK FALSE
