SPECIFICATION Spec
CONSTANTS
  MAXLEN = 3
  EMITLEN = 4
  PINNED = TRUE
INVARIANTS TokSafe Progress
CHECK_DEADLOCK FALSE
