SPECIFICATION Spec
CONSTANTS TNEG = 2
          TMAX = 3
          NTRMAX = 3
          NQ = 2
          NTY = 2
          BUGGY = TRUE
          TRNOMOD = 256
INVARIANTS Refines
CHECK_DEADLOCK FALSE
