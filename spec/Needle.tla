------------------------------- MODULE Needle -------------------------------
(* The line scanner of the tools (src/dt-io.c: calc_grep_atom / dt_io_find_strpdt2) locates a value inside a line by a
   "needle": the first literal character of the input format, and tries the parser at the positions
   needle + off_min .. needle + off_max in front of it.  The window is computed from the format alone by summing, for the
   fields in front of the needle, the width range the scanner ASSUMES for each field.  This module transcribes that
   computation (Scan) over the token table of Format.tla and states what makes it right:
     Covers   the number of characters the formatter actually prints for the fields in front of the needle always lies in
              the assumed range, i.e. the true start of the value is one of the positions tried
   TLC checks Covers for every format (complete or not does not matter to the scanner; Format's generator supplies them)
   over the SUPPORTED token set.  Two negative controls:
     ADDSTD = FALSE   the pinned code, where %F / %T overwrite the offsets accumulated so far instead of adding to them
                      (repaired in /repo by 00df76b): Covers fails for formats such as %m%T
     NeedleAll.cfg    all tokens: Roman numerals, %N, the b/B suffix and %s in front of the needle are not accounted for by
                      the scanner (a documented limit of the line scanner, not of the parser)
   Conformance: for every format TLC emits, NeedleTrace.tla compares needle character and window with what the real
   calc_grep_atom() returns. *)
EXTENDS Format
CONSTANTS ADDSTD
(* width the scanner assumes <<min, max>> / width the formatter prints <<min, max>> (English names: abbreviated 3, long
   month 3..9, long weekday 6..9); tokens that carry their own needle are handled in Walk *)
W(a, b) == <<a, b>>
Assumed(t) ==
  CASE t \in {"%Y", "%G", "%rY", "%OY"} -> W(4, 4)
    [] t \in {"%y", "%g"} -> W(2, 2)
    [] t = "%_y" -> W(1, 1)
    [] t \in {"%m", "%0m", "%-m", "% m", "%Om", "%d", "%-d", "% d", "%Od", "%u", "%w", "%c", "%-c", "%Oc", "%V", "%U", "%W", "%C", "%-V",
              "%H", "%-H", "%I", "%M", "%S", "%db", "%dB"} -> W(1, 2)
    [] t \in {"%mth", "%dth", "%cth"} -> W(1, 4)          \* the ordinal suffix is optional for the scanner: min grows by 2 only
    [] t \in {"%j", "%D", "%-j"} -> W(1, 3)
    [] t = "%jth" -> W(1, 5)
    [] t \in {"%a", "%b", "%h"} -> W(3, 3)
    [] t = "%A" -> W(6, 9)
    [] t = "%B" -> W(3, 9)
    [] t \in {"%_a", "%_b"} -> W(1, 1)
    [] t \in {"%p", "%P"} -> W(2, 2)
    [] t = "%s" -> W(1, 10)
    [] OTHER -> W(0, 0)                                     \* %N and anything else: not accounted for
Printed(t) ==
  CASE t \in {"%Y", "%G", "%rY"} -> W(4, 4)
    [] t = "%OY" -> W(1, 15)
    [] t \in {"%y", "%g"} -> W(2, 2)
    [] t = "%_y" -> W(1, 1)
    [] t \in {"%m", "%0m", "% m", "%d", "% d", "%w", "%c", "%V", "%U", "%W", "%C", "%H", "%I", "%M", "%S"} -> W(2, 2)
    [] t \in {"%-m", "%-d", "%-c", "%-V", "%-H"} -> W(1, 2)
    [] t = "%u" -> W(1, 1)
    [] t = "%Om" -> W(1, 4)
    [] t = "%Od" -> W(1, 6)
    [] t = "%Oc" -> W(1, 1)
    [] t \in {"%db", "%dB"} -> W(3, 3)
    [] t \in {"%mth", "%dth", "%cth"} -> W(3, 4)
    [] t \in {"%j", "%D"} -> W(3, 3)
    [] t = "%-j" -> W(1, 3)
    [] t = "%jth" -> W(3, 5)
    [] t \in {"%a", "%b", "%h"} -> W(3, 3)
    [] t = "%A" -> W(6, 9)
    [] t = "%B" -> W(3, 9)
    [] t \in {"%_a", "%_b"} -> W(1, 1)
    [] t \in {"%p", "%P"} -> W(2, 2)
    [] t = "%s" -> W(1, 12)                                 \* -11644473600 .. 67767976233 inside 1601..4095
    [] t = "%N" -> W(9, 9)
    [] OTHER -> W(0, 0)
(* walk the format as calc_grep_atom does: accumulate until a needle is found.  Result: [ndl, amin, amax, pmin, pmax]
   ndl = "" when the format has no literal (needle-less mode, not modelled further) *)
RECURSIVE Walk(_, _, _, _, _, _, _)
Walk(ts, ss, i, amin, amax, pmin, pmax) ==
  IF i > Len(ts) THEN [ndl |-> "", amin |-> amin, amax |-> amax, pmin |-> pmin, pmax |-> pmax]
  ELSE LET t == ts[i] IN
    IF t = "%F" THEN [ndl |-> "-", amin |-> (IF ADDSTD THEN amin ELSE 0) + 4, amax |-> (IF ADDSTD THEN amax ELSE 0) + 4,
                      pmin |-> pmin + 4, pmax |-> pmax + 4]
    ELSE IF t = "%T" THEN [ndl |-> ":", amin |-> (IF ADDSTD THEN amin ELSE 0) + 1, amax |-> (IF ADDSTD THEN amax ELSE 0) + 2,
                           pmin |-> pmin + 2, pmax |-> pmax + 2]
    ELSE LET a == Assumed(t)  p == Printed(t)
             r == [amin |-> amin + a[1], amax |-> amax + a[2], pmin |-> pmin + p[1], pmax |-> pmax + p[2]]
         IN IF i <= Len(ss) /\ ss[i] # ""
            THEN [ndl |-> ss[i], amin |-> r.amin, amax |-> r.amax, pmin |-> r.pmin, pmax |-> r.pmax]
            ELSE Walk(ts, ss, i + 1, r.amin, r.amax, r.pmin, r.pmax)
Scan(ts, ss) == Walk(ts, ss, 1, 0, 0, 0, 0)
Covers == toks # <<>> => LET w == Scan(toks, seps) IN w.ndl # "" => (w.amin <= w.pmin /\ w.pmax <= w.amax)
EmitW == toks # <<>> => LET w == Scan(toks, seps) IN
           PrintT(ToJson([t |-> toks, s |-> seps, ndl |-> w.ndl, omin |-> 0 - w.amax, omax |-> 0 - w.amin]))
=============================================================================
