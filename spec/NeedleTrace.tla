----------------------------- MODULE NeedleTrace -----------------------------
(* conformance of the real calc_grep_atom() with Needle!Scan: one event per format
     Atom(t, s, ndl, omin, omax)   tokens and separators of the format, and what the real function returned
   accepted iff the needle character and the offset window are the ones the transcription computes (formats without a
   literal run in the scanner's needle-less mode, which the model does not describe further: only "no literal needle"). *)
EXTENDS Needle, IOUtils, TLCExt
VARIABLES l
Tr == ndJsonDeserialize(IOEnv.TRACE)
Ev == Tr[l]
TInit == l = 1 /\ Init
TReset == l <= Len(Tr) /\ Ev.e = "Reset" /\ l' = l + 1 /\ UNCHANGED vars
TAtom == /\ l <= Len(Tr) /\ Ev.e = "Atom"
         /\ LET w == Scan(Ev.t, Ev.s) IN
              IF w.ndl # "" THEN Ev.ndl = w.ndl /\ Ev.omin = 0 - w.amax /\ Ev.omax = 0 - w.amin
              ELSE Ev.ndl \in {"", "nl"}
         /\ toks' = Ev.t /\ seps' = Ev.s /\ UNCHANGED kind /\ l' = l + 1
TNext == TReset \/ TAtom
TSpec == TInit /\ [][TNext]_<<vars, l>>
Accepted == TLCGet("stats").diameter - 1 = Len(Tr)
=============================================================================
