SPECIFICATION Spec
CONSTANTS LOCS = {"de_DE", "fr_FR", "tr_TR"}
          MAXOPS = 4
          CROSS = FALSE
INVARIANTS ParseByI PrintByF
CHECK_DEADLOCK FALSE
