SPECIFICATION Spec
CONSTANTS TNEG = 2
          TMAX = 4
          NTRMAX = 3
          NQ = 2
          NTY = 2
          BUGGY = FALSE
          TRNOMOD = 256
INVARIANTS Refines CacheInv Emit
PROPERTIES Progress
CHECK_DEADLOCK FALSE
