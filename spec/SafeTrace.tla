------------------------------ MODULE SafeTrace ------------------------------
(* Direction B for C10: events recorded from the real library (ASan build, exact-size heap blocks) and from tool runs.
     Tok(s, n, end, len)      the loop around __tok_spec on the concretisation of the abstract string s took n tokens and stopped
                              at offset end: must be exactly what Lex.tla computes (NTok, Len) -- conformance of the tokeniser
     Parse(used, len)         a parser call returned an end pointer: 0 <= used <= len
     Fmt(ret, bsz, nul)       a formatter call: ret <= bsz, and the text is terminated when there is room
     Run(rc)                  a tool run on hostile input: no sanitizer report (99), no signal, no timeout (124) *)
EXTENDS Lex, IOUtils, TLCExt
VARIABLES l
Tr == ndJsonDeserialize(IOEnv.TRACE)
Ev == Tr[l]
TInit == l = 1 /\ Init
Step == l' = l + 1 /\ UNCHANGED str
TReset == l <= Len(Tr) /\ Ev.e = "Reset" /\ Step
TTok == /\ l <= Len(Tr) /\ Ev.e = "Tok"
        /\ Ev.len = Len(Ev.s) /\ Ev.n = NTok(Ev.s) /\ Ev.end = Len(Ev.s)
        /\ l' = l + 1 /\ str' = Ev.s
TParse == l <= Len(Tr) /\ Ev.e = "Parse" /\ Ev.used >= 0 /\ Ev.used <= Ev.len /\ Step
TFmt == l <= Len(Tr) /\ Ev.e = "Fmt" /\ Ev.ret <= Ev.bsz /\ Ev.nul = 1 /\ Step
TRun == l <= Len(Tr) /\ Ev.e = "Run" /\ Ev.rc \in 0..3 /\ Step
TNext == TReset \/ TTok \/ TParse \/ TFmt \/ TRun
TSpec == TInit /\ [][TNext]_<<str, l>>
Accepted == TLCGet("stats").diameter - 1 = Len(Tr)
=============================================================================
