-------------------------------- MODULE Round --------------------------------
(* (S) semantics of dateround (C16), checked on a scaled-down calendar so that TLC can compare, for EVERY date-time,
   target, direction and --next flag, the declarative meaning
        the nearest point of the timeline on the requested side whose named field has the target value and whose
        finer fields are those of the input (a day that does not exist being replaced by the month's last day)
   with the constructive rule the tool documents (set the field, carry into the next coarser unit when the result
   is on the wrong side), plus idempotence without --next and strictness with it, and the same for co-class
   rounding (nearest multiple of N units, finer fields zero).
   Calendar of the model: years 0..NY-1 of 3 months with 3, 2, 3 days; a day has NH hours of NM minutes of NS seconds;
   weeks have 3 days.  RoundTrace.tla applies the same constructive rule on the real calendar. *)
EXTENDS Integers, Sequences, FiniteSets, FiniteSetsExt, TLC
CONSTANTS NY, NH, NM, NS
MLenS(mm) == IF mm = 2 THEN 2 ELSE 3
Points == {p \in [y : 0..(NY - 1), m : 1..3, d : 1..3, h : 0..(NH - 1), mi : 0..(NM - 1), s : 0..(NS - 1)] : p.d <= MLenS(p.m)}
DayNo(p) == p.y * 8 + (IF p.m = 1 THEN 0 ELSE IF p.m = 2 THEN 3 ELSE 5) + (p.d - 1)
Lin(p) == ((DayNo(p) * NH + p.h) * NM + p.mi) * NS + p.s
WdS(p) == (DayNo(p) % 3) + 1
Clamp(mm, dd) == IF dd > MLenS(mm) THEN MLenS(mm) ELSE dd
Fields == {"wd", "mon", "dom", "h", "mi", "s"}
TargetsOf(f) == CASE f = "wd" -> 1..3 [] f = "mon" -> 1..3 [] f = "dom" -> 1..3 [] f = "h" -> 0..(NH - 1)
                  [] f = "mi" -> 0..(NM - 1) [] f = "s" -> 0..(NS - 1)

\* ---- declarative
PointOfLin(n) == LET dn == n \div (NS * NM * NH)
                     r == dn % 8
                 IN [y |-> dn \div 8,
                     m |-> IF r < 3 THEN 1 ELSE IF r < 5 THEN 2 ELSE 3,
                     d |-> IF r < 3 THEN r + 1 ELSE IF r < 5 THEN r - 2 ELSE r - 4,
                     h |-> (n \div (NS * NM)) % NH, mi |-> (n \div NS) % NM, s |-> n % NS]
Admissible(p, x, f, v) ==
  CASE f = "s"   -> p.s = v
    [] f = "mi"  -> p.mi = v /\ p.s = x.s
    [] f = "h"   -> p.h = v /\ p.mi = x.mi /\ p.s = x.s
    [] f = "wd"  -> WdS(p) = v /\ p.h = x.h /\ p.mi = x.mi /\ p.s = x.s
    [] f = "dom" -> p.d = Clamp(p.m, v) /\ p.h = x.h /\ p.mi = x.mi /\ p.s = x.s
    [] f = "mon" -> p.m = v /\ p.d = Clamp(v, x.d) /\ p.h = x.h /\ p.mi = x.mi /\ p.s = x.s
OnSide(p, x, dir, next) == IF dir > 0 THEN (IF next THEN Lin(p) > Lin(x) ELSE Lin(p) >= Lin(x))
                           ELSE (IF next THEN Lin(p) < Lin(x) ELSE Lin(p) <= Lin(x))
Cands(x, f, v, dir, next) == {p \in Points : Admissible(p, x, f, v) /\ OnSide(p, x, dir, next)}
Decl(x, f, v, dir, next) ==
  LET C == Cands(x, f, v, dir, next)
      L == {Lin(p) : p \in C}
  IN PointOfLin(IF dir > 0 THEN Min(L) ELSE Max(L))

\* ---- constructive: set the field, then carry into the next coarser unit if on the wrong side
AddMonths(p, k, dd) == LET t == p.y * 3 + (p.m - 1) + k IN [p EXCEPT !.y = t \div 3, !.m = (t % 3) + 1, !.d = Clamp((t % 3) + 1, dd)]
Wrong(c, x, dir, next) == ~OnSide(c, x, dir, next)
Constr(x, f, v, dir, next) ==
  CASE f = "s"   -> LET c == [x EXCEPT !.s = v] IN IF Wrong(c, x, dir, next) THEN PointOfLin(Lin(c) + dir * NS) ELSE c
    [] f = "mi"  -> LET c == [x EXCEPT !.mi = v] IN IF Wrong(c, x, dir, next) THEN PointOfLin(Lin(c) + dir * NS * NM) ELSE c
    [] f = "h"   -> LET c == [x EXCEPT !.h = v] IN IF Wrong(c, x, dir, next) THEN PointOfLin(Lin(c) + dir * NS * NM * NH) ELSE c
    [] f = "wd"  -> LET delta == IF dir > 0 THEN (v - WdS(x) + 3) % 3 ELSE -((WdS(x) - v + 3) % 3)
                        c == PointOfLin(Lin(x) + delta * NS * NM * NH)
                    IN IF Wrong(c, x, dir, next) THEN PointOfLin(Lin(c) + dir * 3 * NS * NM * NH) ELSE c
    [] f = "dom" -> LET c == [x EXCEPT !.d = Clamp(x.m, v)] IN IF Wrong(c, x, dir, next) THEN AddMonths(x, dir, v) ELSE c
    [] f = "mon" -> LET c == [x EXCEPT !.m = v, !.d = Clamp(v, x.d)]
                    IN IF Wrong(c, x, dir, next) THEN [c EXCEPT !.y = c.y + dir] ELSE c

\* ---- co-class rounding on the seconds line: multiples of n units, finer fields zero
UnitSecs(u) == CASE u = "s" -> 1 [] u = "mi" -> NS [] u = "h" -> NS * NM [] u = "d" -> NS * NM * NH
\* multiples restart with the next coarser unit: n must divide it
CoclOK(u, n) == CASE u = "s" -> NS % n = 0 [] u = "mi" -> NM % n = 0 [] u = "h" -> NH % n = 0 [] u = "d" -> n = 1
OnGrid(p, u, n) == CASE u = "s" -> p.s % n = 0
                     [] u = "mi" -> p.mi % n = 0 /\ p.s = 0
                     [] u = "h" -> p.h % n = 0 /\ p.mi = 0 /\ p.s = 0
                     [] u = "d" -> p.h = 0 /\ p.mi = 0 /\ p.s = 0
CoDecl(x, u, n, dir, next) ==
  LET L == {Lin(p) : p \in {q \in Points : OnGrid(q, u, n) /\ OnSide(q, x, dir, next)}}
  IN PointOfLin(IF dir > 0 THEN Min(L) ELSE Max(L))
\* constructive: floor to the grid, step up if needed
CoConstr(x, u, n, dir, next) ==
  LET g == UnitSecs(u) * n
      \* grid points are multiples of g within the coarser unit, which is itself a multiple of g: floor on Lin works
      fl == (Lin(x) \div g) * g
      onp == fl = Lin(x)
  IN IF dir > 0 THEN (IF onp /\ ~next THEN x ELSE PointOfLin(fl + g))
     ELSE (IF onp /\ next THEN PointOfLin(fl - g) ELSE PointOfLin(fl))

VARIABLES x, f, v, dir, next
vars == <<x, f, v, dir, next>>
Mid == {p \in Points : p.y = 1}
\* one trivial initial state; the instances are successor states so that TLC's workers evaluate them in parallel
Init == x \in Mid /\ f = "none" /\ v = 0 /\ dir = 1 /\ next = FALSE
Next == /\ f = "none" /\ x' = x
        /\ f' \in Fields /\ v' \in TargetsOf(f') /\ dir' \in {-1, 1} /\ next' \in BOOLEAN
Spec == Init /\ [][Next]_vars

Agree      == f # "none" => Constr(x, f, v, dir, next) = Decl(x, f, v, dir, next)
Idempotent == (f # "none" /\ ~next) => Constr(Constr(x, f, v, dir, FALSE), f, v, dir, FALSE) = Constr(x, f, v, dir, FALSE)
Strict     == (f # "none" /\ next) => Constr(x, f, v, dir, TRUE) # x
Stays      == (f # "none" /\ ~next /\ Admissible(x, x, f, v)) => Constr(x, f, v, dir, next) = x
CoAgree    == f # "none" => \A u \in {"s", "mi", "h", "d"} : \A n \in 1..3 :
                 CoclOK(u, n) => CoConstr(x, u, n, dir, next) = CoDecl(x, u, n, dir, next)
CoIdem     == f # "none" => \A u \in {"s", "mi", "h", "d"} : \A n \in 1..3 :
                 (CoclOK(u, n) /\ ~next) => CoConstr(CoConstr(x, u, n, dir, FALSE), u, n, dir, FALSE) = CoConstr(x, u, n, dir, FALSE)
=============================================================================
