SPECIFICATION Spec
INVARIANTS Recombine InRange Plain
CHECK_DEADLOCK FALSE
