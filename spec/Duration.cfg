SPECIFICATION Spec
INVARIANTS Recombine InRange Plain SplitSame
CHECK_DEADLOCK FALSE
