SPECIFICATION Spec
CONSTANTS INPUTS <- InputsDef
          MAXN = 4
          KIND = "sound"
INVARIANTS NoHiddenState
CHECK_DEADLOCK FALSE
