SPECIFICATION Spec
CONSTANTS
  YEARS = {1999, 2000, 2096, 2100}
  DAYS = {1, 28, 29, 30, 31}
  KM <- KM_q
  KYR <- KYR_q
  KD <- KD_q
  MAXOPS = 2
  EAGER = FALSE
INVARIANTS Valid Compose DayExact KeepDay Emit
CHECK_DEADLOCK FALSE
