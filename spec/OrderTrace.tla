----------------------------- MODULE OrderTrace -----------------------------
(* Direction B for C08: dtest and dsort runs of the real tools.
   Test(a, b, flag, rc): rc must be TestRc(flag, Cmp(a, b));   positions are <<chain day, second of day>>
   Sort(keys, out, rev): out is a permutation of keys (as multisets of positions), ordered, nothing lost *)
EXTENDS Order, Json, IOUtils, TLCExt
VARIABLE l
Tr == ndJsonDeserialize(IOEnv.TRACE)
Ev == Tr[l]
NSreal == 86400
\* real positions do not fit ND*NS: compare lexicographically instead of linearising (TLC integers are 32 bit)
LexCmp(p, q) == IF p[1] < q[1] THEN -1 ELSE IF p[1] > q[1] THEN 1
                ELSE IF p[2] < q[2] THEN -1 ELSE IF p[2] > q[2] THEN 1 ELSE 0
TInit == l = 1 /\ a = <<0, 0>> /\ b = <<0, 0>> /\ c3 = <<0, 0>>
TReset == l <= Len(Tr) /\ Ev.e = "Reset" /\ l' = l + 1 /\ UNCHANGED vars
TTest == /\ l <= Len(Tr) /\ Ev.e = "Test"
         /\ Ev.rc = TestRc(Ev.flag, LexCmp(Ev.a, Ev.b))
         /\ a' = Ev.a /\ b' = Ev.b /\ UNCHANGED c3
         /\ l' = l + 1
CountR(s, x) == Cardinality({i \in 1..Len(s) : s[i] = x})
TSort == /\ l <= Len(Tr) /\ Ev.e = "Sort"
         /\ Ev.rc = 0
         /\ Ev.outlines_all_from_input
         /\ Ev.nin = Ev.nout
         /\ Len(Ev.out) = Len(Ev.keys)
         /\ \A i \in 1..Len(Ev.keys) : CountR(Ev.keys, Ev.keys[i]) = CountR(Ev.out, Ev.keys[i])
         /\ \A i \in 1..(Len(Ev.out) - 1) :
               IF Ev.rev THEN LexCmp(Ev.out[i], Ev.out[i + 1]) >= 0 ELSE LexCmp(Ev.out[i], Ev.out[i + 1]) <= 0
         /\ l' = l + 1 /\ UNCHANGED vars
TNext == TReset \/ TTest \/ TSort
TSpec == TInit /\ [][TNext]_<<vars, l>>
Accepted == TLCGet("stats").diameter - 1 = Len(Tr)
=============================================================================
