----------------------------- MODULE OrderTrace -----------------------------
(* Direction B for C08: dtest and dsort runs of the real tools.
   Test(a, b, flag, rc): rc must be TestRc(flag, Cmp(a, b));   positions are <<chain day, second of day>>
   Sort(keys, out, rev): out is a permutation of keys (as multisets of positions), ordered, nothing lost *)
EXTENDS Order, Json, IOUtils, TLCExt, SequencesExt
VARIABLE l
Tr == ndJsonDeserialize(IOEnv.TRACE)
Ev == Tr[l]
NSreal == 86400
\* real positions do not fit ND*NS: compare lexicographically instead of linearising (TLC integers are 32 bit)
LexCmp(p, q) == IF p[1] < q[1] THEN -1 ELSE IF p[1] > q[1] THEN 1
                ELSE IF p[2] < q[2] THEN -1 ELSE IF p[2] > q[2] THEN 1 ELSE 0
TInit == l = 1 /\ a = <<0, 0>> /\ b = <<0, 0>> /\ c3 = <<0, 0>>
TReset == l <= Len(Tr) /\ Ev.e = "Reset" /\ l' = l + 1 /\ UNCHANGED vars
TTest == /\ l <= Len(Tr) /\ Ev.e = "Test"
         /\ Ev.rc = TestRc(Ev.flag, LexCmp(Ev.a, Ev.b))
         /\ a' = Ev.a /\ b' = Ev.b /\ UNCHANGED c3
         /\ l' = l + 1
CountR(s, x) == Cardinality({i \in 1..Len(s) : s[i] = x})
TSort == /\ l <= Len(Tr) /\ Ev.e = "Sort"
         /\ Ev.rc = 0
         /\ Ev.outlines_all_from_input
         /\ Ev.nin = Ev.nout
         /\ Len(Ev.out) = Len(Ev.keys)
         \* ordered permutation: positions that compare equal are identical pairs, so the sorted sequence of the keys is unique and the
         \* output must be exactly it (SortSeq of the CommunityModules: n log n instead of the n^2 of counting every element)
         /\ LET srt == SortSeq(Ev.keys, LAMBDA p, q : LexCmp(p, q) < 0)
            IN Ev.out = (IF Ev.rev THEN Reverse(srt) ELSE srt)
         /\ l' = l + 1 /\ UNCHANGED vars
TNext == TReset \/ TTest \/ TSort
TSpec == TInit /\ [][TNext]_<<vars, l>>
Accepted == TLCGet("stats").diameter - 1 = Len(Tr)
=============================================================================
