---------------------------- MODULE LeapCompile ----------------------------
(* The leap-second list compiler lib/ltrcc.c (run at build time as `ltrcc -C leap-seconds.list > leap-seconds.def`).

   (S)  what the six compiled columns must be for a list of rows <<NTP day nd, TAI-UTC off>> ("from 00:00:00 UTC of NTP
        day nd on the difference is off"): one leading and one trailing sentinel around one entry per row, every entry
        keyed by the *last second before* the row's instant -- the day before (as a daisy number, and packed as ymd and
        ymcw), the Unix second nd*86400-1, the clock label of the second that closes that day -- and the difference
        that holds from there on.  Consumers bisect every column with `last entry strictly below the key` (Bisect.tla),
        so the columns must be strictly increasing between the sentinels and all of one length.
   (I)  the compiler as written: six passes over the file, one call back per line (comment, blank, data), prologue and
        epilogue emit the sentinels, each call back keeps a `static cor` across lines *and across passes*.
   TLC: for every list of at most MAXLINES lines (comment / blank / data rows with gaps from GAPS and steps from STEPS)
        the columns the mechanism emits are the columns (S) demands.  Emit = TRUE prints every list with its columns
        for the replay into the real ltrcc.
   Deviation (named, config LeapCompileNeg.cfg): a row that *lowers* the difference (a deleted second) closes its day at
   23:59:58; the mechanism labels it 23:59:59.  No such row exists in the shipped list; with STEPS = {-1, 1} the
   configuration must violate Refines (negative control of the spec and documentation of the gap).                   *)
EXTENDS Integers, Sequences, Greg, TLC, Json

CONSTANTS MAXLINES,     \* lines per list
          GAPS,         \* days between consecutive rows
          STEPS,        \* change of the difference from row to row
          ND0,          \* NTP day of the first row (26298 = 1972-01-01)
          Emit

StepsNeg == {-1, 1}                      \* for LeapCompileNeg.cfg (cfg files take no negative numbers)
NTP1970 == 25567                         \* NTP day of 1970-01-01
DAISY1970 == RD1970 - RD1601 + 1         \* daisy of 1970-01-01 (daisy 1 = 1601-01-01)

Comment == [k |-> "c", nd |-> 0, off |-> 0]
Blank == [k |-> "b", nd |-> 0, off |-> 0]
Row(nd, off) == [k |-> "d", nd |-> nd, off |-> off]

Rows(L) == SelectSeq(L, LAMBDA x : x.k = "d")

(* ------------------------------------------------------------------ (S) *)
Lo == <<"lo", 0>>
Hi == <<"hi", 0>>
V(n) == <<"v", n>>

\* label of the second that closes the day before row i: an inserted second is 23:59:60, a deleted one leaves 23:59:58
SLabel(R, i) == IF i = 1 \/ R[i].off >= R[i-1].off THEN <<23, 59, 60>> ELSE <<23, 59, 58>>

SColumns(L) ==
  LET R == Rows(L)
      n == Len(R)
  IN [corr |-> <<V(10)>> \o [i \in 1..n |-> V(R[i].off)] \o <<V(IF n = 0 THEN 0 ELSE R[n].off)>>,
      day  |-> <<V(0)>> \o [i \in 1..n |-> V((R[i].nd - NTP1970 - 1) + DAISY1970)] \o <<Hi>>,
      sec  |-> <<Lo>> \o [i \in 1..n |-> V((R[i].nd - NTP1970) * 86400 - 1)] \o <<Hi>>,
      hms  |-> <<Hi>> \o [i \in 1..n |-> <<"t", SLabel(R, i)>>] \o <<Hi>>]

\* what consumers rely on
Increasing(col) == \A i \in 2..(Len(col) - 2) : col[i][2] < col[i+1][2]
WellFormed(L) ==
  LET c == SColumns(L) IN
  /\ Len(c.corr) = Len(c.day) /\ Len(c.day) = Len(c.sec) /\ Len(c.sec) = Len(c.hms)
  /\ Increasing(c.day) /\ Increasing(c.sec)

(* ------------------------------------------------------------------ (I) *)
\* passes in file order: corr, ymd, ymcw, daisy (all three through pr_line_d), s, hms
PASSES == <<"corr", "ymd", "ymcw", "d", "s", "hms">>
FnOf(p) == CASE p = "corr" -> "corr" [] p \in {"ymd", "ymcw", "d"} -> "d" [] p = "s" -> "dt" [] OTHER -> "t"

VARIABLES L, pass, ln, cor, out
vars == <<L, pass, ln, cor, out>>

Lines == {Comment, Blank} \cup {[k |-> "g", nd |-> g, off |-> s] : g \in GAPS, s \in STEPS}   \* rows as (gap, step), resolved below

\* resolve (gap, step) rows into absolute (NTP day, difference) rows; the first row is <<ND0, 10>> whatever its gap/step
RECURSIVE Resolve(_, _, _, _)
Resolve(ls, nd, off, first) ==
  IF ls = <<>> THEN <<>>
  ELSE LET x == Head(ls) IN
       IF x.k # "g" THEN <<x>> \o Resolve(Tail(ls), nd, off, first)
       ELSE IF first THEN <<Row(ND0, 10)>> \o Resolve(Tail(ls), ND0, 10, FALSE)
       ELSE <<Row(nd + x.nd, off + x.off)>> \o Resolve(Tail(ls), nd + x.nd, off + x.off, FALSE)

RECURSIVE SeqsUpTo(_)
SeqsUpTo(n) == IF n = 0 THEN {<<>>} ELSE LET S == SeqsUpTo(n - 1) IN S \cup {Append(s, x) : s \in {t \in S : Len(t) = n - 1}, x \in Lines}

Init ==
  /\ L \in {Resolve(s, 0, 0, TRUE) : s \in SeqsUpTo(MAXLINES)}
  /\ pass = 1 /\ ln = 0
  /\ cor = [f \in {"corr", "d", "dt", "t"} |-> 0]
  /\ out = [p \in {"corr", "ymd", "ymcw", "d", "s", "hms"} |-> <<>>]

P == PASSES[pass]
F == FnOf(P)

Prologue ==
  /\ pass <= 6 /\ ln = 0
  /\ out' = [out EXCEPT ![P] = <<CASE P = "corr" -> V(10)
                                 [] P \in {"ymd", "ymcw", "d"} -> V(0)
                                 [] P = "s" -> Lo
                                 [] OTHER -> Hi>>]
  /\ ln' = 1 /\ UNCHANGED <<L, pass, cor>>

\* one data/comment/blank line through the call back of the current pass
Line ==
  /\ pass <= 6 /\ ln >= 1 /\ ln <= Len(L)
  /\ LET x == L[ln] IN
     IF x.k # "d" THEN UNCHANGED <<out, cor>>
     ELSE CASE P = "corr" ->
               /\ cor' = [cor EXCEPT !["corr"] = x.off]
               /\ out' = [out EXCEPT !["corr"] = Append(@, V(x.off))]
          [] P \in {"ymd", "ymcw", "d"} ->
               \* daisy = val / 86400 + 109207, then dt_dconv() to the column's representation (C01/C02's matter)
               /\ out' = [out EXCEPT ![P] = Append(@, V(x.nd + 109207))]
               /\ UNCHANGED cor
          [] P = "s" ->
               /\ out' = [out EXCEPT !["s"] = Append(@, V((x.nd - 25567) * 86400 - 1))]
               /\ UNCHANGED cor
          [] OTHER ->
               \* val-- ; s = val % 60, m = val / 60 % 60, h = val / 3600 % 24 ; s += (off >= cor) ; cor = off
               LET sod == 86399         \* (nd * 86400 - 1) mod 86400 for day-aligned rows
                   lab == <<(sod \div 3600) % 24, (sod \div 60) % 60, (sod % 60) + (IF x.off >= cor["t"] THEN 1 ELSE 0)>>
               IN /\ out' = [out EXCEPT !["hms"] = Append(@, <<"t", lab>>)]
                  /\ cor' = [cor EXCEPT !["t"] = x.off]
  /\ ln' = ln + 1 /\ UNCHANGED <<L, pass>>

Epilogue ==
  /\ pass <= 6 /\ ln = Len(L) + 1
  /\ out' = [out EXCEPT ![P] = Append(@, CASE P = "corr" -> V(cor["corr"])
                                           [] OTHER -> Hi)]
  /\ cor' = [cor EXCEPT ![F] = 0]
  /\ pass' = pass + 1 /\ ln' = 0 /\ UNCHANGED L

Done == pass = 7 /\ UNCHANGED vars
Next == Prologue \/ Line \/ Epilogue \/ Done
Spec == Init /\ [][Next]_vars

(* ------------------------------------------------------------------ properties *)
Columns == [corr |-> out["corr"], day |-> out["d"], sec |-> out["s"], hms |-> out["hms"]]

Refines ==
  pass = 7 =>
    /\ Columns = SColumns(L)
    /\ out["ymd"] = out["d"] /\ out["ymcw"] = out["d"]        \* same days in all three representations
    /\ (Emit => PrintT(ToJson([list |-> L])))

SWellFormed == WellFormed(L)

\* the statics are back at 0 between passes: a second compilation in the same process would start like the first
StaticsReset == ln = 0 => \A f \in DOMAIN cor : cor[f] = 0

TypeOK == pass \in 1..7 /\ ln \in 0..(Len(L) + 1)
=============================================================================
