SPECIFICATION Spec
CONSTANTS W = 6
          L = 3
          K = 2
          MAXLEN = 8
INVARIANTS Emit
CHECK_DEADLOCK FALSE
