SPECIFICATION Spec
CONSTANTS
  TOKS = {"%Y","%y","%_y","%G","%g","%m","%-m","% m","%mth","%b","%B","%_b","%d","%-d","%dth","%j","%-j","%jth","%a","%A","%_a","%u","%w","%c","%cth","%V","%U","%W","%C","%F","%H","%I","%M","%S","%p","%T"}
  SEPS = {"", "-", " "}
  MAXTOK = 3
  KINDS = {"d", "t", "dt"}
  ADDSTD = TRUE
INVARIANTS Covers EmitW
CHECK_DEADLOCK FALSE
