-------------------------------- MODULE TzMap --------------------------------
(* Zone maps (C19).  (S): a compiled map is a finite function from keys to zones; Find answers src[k] for a present key
   and NULL for an absent one.  (I): the record layout of lib/tzmap.c and the bisection of tzm_find (as repaired) over
   it: the mapped names are a word array; record r occupies KW[r] key words (the key padded to a word boundary)
   followed by one value word whose first byte is NUL.  Keys are abstracted to even numbers 2, 4, ... in sorted order
   (absent targets are the odd numbers and 0), so the model checks exactly the index arithmetic: rewinding to the
   record start, finding the value word, shrinking the window.
     Refines   the loop answers record r iff target = key r, NULL iff the target is absent
     Progress  the window [lo, hi) shrinks in every iteration  (the pinned loop did not terminate for some absent keys)
   Every (layout, target) is emitted and replayed through tzmap cc + tzm_find with concrete keys of those word counts. *)
EXTENDS Integers, Sequences, FiniteSets, TLC, Json
CONSTANTS NREC, MAXKW
VARIABLES kw,        \* kw[r] = number of key words of record r (1..MAXKW)
          target, lo, hi, pc, res
vars == <<kw, target, lo, hi, pc, res>>
NR == Len(kw)
RECURSIVE StartOf(_)
StartOf(r) == IF r = 1 THEN 0 ELSE StartOf(r - 1) + kw[r - 1] + 1       \* 0-based word index of record r
ValIdx(r) == StartOf(r) + kw[r]
NW == IF NR = 0 THEN 0 ELSE ValIdx(NR) + 1
IsValue(i) == \E r \in 1..NR : ValIdx(r) = i
RecOf(i) == CHOOSE r \in 1..NR : StartOf(r) <= i /\ i <= ValIdx(r)
Key(r) == 2 * r

Init == /\ kw \in UNION { [1..n -> 1..MAXKW] : n \in 0..NREC }
        /\ target \in 0..(2 * NREC + 1)
        /\ lo = 0 /\ hi = (IF Len(kw) = 0 THEN 0 ELSE 0) /\ pc = "start" /\ res = -1
Start == /\ pc = "start" /\ hi' = NW /\ pc' = "loop" /\ UNCHANGED <<kw, target, lo, res>>
Loop ==
  /\ pc = "loop"
  /\ IF lo >= hi THEN pc' = "done" /\ res' = 0 /\ UNCHANGED <<lo, hi>>
     ELSE LET mid == lo + (hi - lo) \div 2
              \* rewind: a value word belongs to the record before it
              rs0 == IF IsValue(mid) THEN mid - 1 ELSE mid
          IN IF IsValue(mid) /\ mid = lo THEN pc' = "done" /\ res' = 0 /\ UNCHANGED <<lo, hi>>
             ELSE LET r == RecOf(rs0)
                      rs == IF StartOf(r) < lo THEN lo ELSE StartOf(r)
                      ve == ValIdx(r)
                  IN IF ve >= hi THEN pc' = "done" /\ res' = 0 /\ UNCHANGED <<lo, hi>>
                     ELSE IF target < Key(r) THEN hi' = rs /\ lo' = lo /\ pc' = "loop" /\ res' = res
                     ELSE IF target > Key(r) THEN lo' = ve + 1 /\ hi' = hi /\ pc' = "loop" /\ res' = res
                     ELSE pc' = "done" /\ res' = r /\ UNCHANGED <<lo, hi>>
  /\ UNCHANGED <<kw, target>>
Next == Start \/ Loop \/ (pc = "done" /\ UNCHANGED vars)
Spec == Init /\ [][Next]_vars

\* (S)
Find == IF target % 2 = 0 /\ target >= 2 /\ target <= 2 * NR THEN target \div 2 ELSE 0
Refines == pc = "done" => res = Find
\* lo always is the start of a record (or the end), so rewinding never stops short
LoAligned == pc = "loop" => (lo = NW \/ \E r \in 1..NR : StartOf(r) = lo)
Progress == [][ (pc = "loop" /\ pc' = "loop") => (hi' - lo' < hi - lo) ]_vars
Emit == pc = "done" => PrintT(ToJson([kw |-> kw, t |-> target, r |-> res]))
=============================================================================
