SPECIFICATION TSpec
CONSTANTS
  TOKS = {}
  SEPS = {}
  MAXTOK = 0
  KINDS = {"d"}
  ADDSTD = TRUE
POSTCONDITION Accepted
CHECK_DEADLOCK FALSE
