-------------------------------- MODULE Loader --------------------------------
(* Loading a zoneinfo (TZif) file safely (C19): every byte offset the loader derives from header fields lies inside
   the file image, or the open is refused.  A file is abstracted to its length and the header fields the loader
   trusts: version (1: one block with 4-byte transitions; 2: a version-1 block to skip, then a block with 8-byte
   transitions) and the counts of both headers.  Acc is the set of <<offset, size>> accesses zif_open makes, in order,
   each guarded by the checks of the repaired code; CHECKED = FALSE drops the guards (the pinned loader): TLC then
   refutes Safe -- the negative control.  Every abstract file is emitted, concretised into bytes and replayed on
   the real zif_open with the image in an exact-size heap block under the address sanitizer. *)
EXTENDS Integers, Sequences, FiniteSets, TLC, Json
CONSTANTS MAXCNT, CHECKED, FULL
HDR == 44
Counts == [ntr : 0..MAXCNT, nty : 0..MAXCNT, nch : 0..MAXCNT, nlp : 0..1, nstd : 0..1, ngmt : 0..1]
\* size of a data block after its header
Block(c, trz) == c.ntr * trz + c.ntr + c.nty * 6 + c.nch + c.nlp * (trz + 4) + c.nstd + c.ngmt
\* a well-formed file of version v with counts c1 (first block) and c2 (second block)
FullLen(v, c1, c2) == IF v = 1 THEN HDR + Block(c1, 4) ELSE HDR + Block(c1, 4) + HDR + Block(c2, 8) + 2

VARIABLES ver, c1, c2, len
vars == <<ver, c1, c2, len>>
\* lengths: every truncation of the well-formed file, and a few beyond
Counts2 == IF FULL THEN Counts ELSE [ntr : 0..MAXCNT, nty : 0..MAXCNT, nch : 0..MAXCNT, nlp : {0}, nstd : {0}, ngmt : {0}]
Init == /\ ver \in {1, 2} /\ c1 \in Counts /\ c2 \in (IF ver = 1 THEN Counts ELSE Counts2)
        /\ (ver = 1 => c2 = c1)
        /\ len \in 0..(FullLen(ver, c1, c2) + 1)
Next == UNCHANGED vars
Spec == Init /\ [][Next]_vars

\* ---- the loader: the accesses it makes and whether it opens ----
Need1 == HDR                                             \* magic, version, counts of the first header
Hds == HDR + Block(c1, 4)                                \* where the second header is expected
Need2 == Hds + HDR                                       \* second header
DataOff == IF ver = 1 THEN HDR ELSE Hds + HDR
Cf == IF ver = 1 THEN c1 ELSE c2
Trz == IF ver = 1 THEN 4 ELSE 8
Need3 == DataOff + Cf.ntr * Trz + Cf.ntr + Cf.nty * 6   \* transitions, types, type details (the only data read)
Refuse == IF CHECKED
            THEN len < Need1 \/ (ver = 2 /\ len < Need2) \/ Cf.nty = 0 \/ len < Need3
            ELSE len <= 20
MaxAccess == IF Refuse THEN (IF len >= 4 THEN 4 ELSE 0)      \* at most the magic was looked at
             ELSE IF ver = 1 THEN (IF Need1 > Need3 THEN Need1 ELSE Need3)
             ELSE (IF Need2 > Need3 THEN Need2 ELSE Need3)
Safe == MaxAccess <= len \/ (Refuse /\ len < 4)
\* the repaired loader refuses nothing it could read completely
Exact == (CHECKED /\ Cf.nty > 0 /\ len >= FullLen(ver, c1, c2)) => ~Refuse
Emit == PrintT(ToJson([v |-> ver, c1 |-> c1, c2 |-> c2, len |-> len, refuse |-> Refuse]))
=============================================================================
