------------------------------ MODULE DateArith ------------------------------
(* (S) semantics of date arithmetic as dateadd performs it (C03, C04), on the real
   Gregorian calendar, with the pending-clamp ("ultimo") state made explicit:
   month and year steps move <<y, m>> and keep the *requested* day-of-month dreq,
   which is clamped to the month length only when the date is printed or when a
   day/week step needs a concrete day.  TLC checks that this design has the
   properties a user relies on:
     Compose   +a months/years then +b == +(a+b)       (because the clamp is deferred)
     DayExact  day/week steps are index arithmetic on the timeline
     Valid     what is printed is always an existing day
   With EAGER = TRUE (clamp after every step) Compose is violated -- the negative
   control used by the self-test to show the property is not vacuous.
   Every reachable state is emitted (start, op sequence, expected print) and replayed
   through the real dadd tool. *)
EXTENDS Greg, Sequences, TLC, Json
CONSTANTS YEARS, DAYS, KM, KYR, KD, MAXOPS, EAGER

VARIABLES y0, m0, d0,     \* the start date (valid)
          y, m, dreq,     \* current year, month, requested (unclamped) day
          ops             \* sequence of <<unit, k>> applied so far
vars == <<y0, m0, d0, y, m, dreq, ops>>

Init == /\ y0 \in YEARS /\ m0 \in 1..12 /\ d0 \in DAYS /\ d0 <= MLen(y0, m0)
        /\ y = y0 /\ m = m0 /\ dreq = d0 /\ ops = <<>>

Clamp(yy, mm, dd) == IF EAGER THEN ClampDay(yy, mm, dd) ELSE dd

AddM(k) == /\ Len(ops) < MAXOPS
           /\ y' = MonthAdd(y, m, k)[1] /\ m' = MonthAdd(y, m, k)[2]
           /\ dreq' = Clamp(MonthAdd(y, m, k)[1], MonthAdd(y, m, k)[2], dreq)
           /\ ops' = Append(ops, <<"mo", k>>)
           /\ UNCHANGED <<y0, m0, d0>>
AddY(k) == /\ Len(ops) < MAXOPS
           /\ y' = y + k /\ m' = m
           /\ dreq' = Clamp(y + k, m, dreq)
           /\ ops' = Append(ops, <<"y", k>>)
           /\ UNCHANGED <<y0, m0, d0>>

\* the unique calendar date with Rata Die r, searched near year yy
YmdOfRD(r, yy) == CHOOSE t \in ((yy - 2)..(yy + 2)) \X (1..12) \X (1..31) :
                     t[3] <= MLen(t[1], t[2]) /\ RD(t[1], t[2], t[3]) = r
AddD(k, unit, mult) ==
           /\ Len(ops) < MAXOPS
           /\ LET r == RD(y, m, ClampDay(y, m, dreq)) + mult * k
                  t == YmdOfRD(r, y + (mult * k) \div 365)       \* search around the year the step lands in
              IN y' = t[1] /\ m' = t[2] /\ dreq' = t[3]
           /\ ops' = Append(ops, <<unit, k>>)
           /\ UNCHANGED <<y0, m0, d0>>

Next == \/ \E k \in KM : AddM(k)
        \/ \E k \in KYR : AddY(k)
        \/ \E k \in KD : AddD(k, "d", 1)
        \/ \E k \in KD : AddD(k, "w", 7)
Spec == Init /\ [][Next]_vars

\* ---- what is printed ----
PrintD == ClampDay(y, m, dreq)

RECURSIVE Months(_)
Months(s) == IF s = <<>> THEN 0
             ELSE (IF Head(s)[1] = "mo" THEN Head(s)[2] ELSE IF Head(s)[1] = "y" THEN 12 * Head(s)[2] ELSE 0)
                  + Months(Tail(s))
RECURSIVE DaysOf(_)
DaysOf(s) == IF s = <<>> THEN 0
             ELSE (IF Head(s)[1] = "d" THEN Head(s)[2] ELSE IF Head(s)[1] = "w" THEN 7 * Head(s)[2] ELSE 0)
                  + DaysOf(Tail(s))
OnlyMY(s) == \A i \in 1..Len(s) : s[i][1] \in {"mo", "y"}
OnlyDW(s) == \A i \in 1..Len(s) : s[i][1] \in {"d", "w"}

Valid    == m \in 1..12 /\ dreq \in 1..31 /\ PrintD >= 1 /\ PrintD <= MLen(y, m)
Compose  == OnlyMY(ops) => /\ <<y, m>> = MonthAdd(y0, m0, Months(ops))
                           /\ PrintD = ClampDay(y, m, d0)
DayExact == OnlyDW(ops) => RD(y, m, PrintD) = RD(y0, m0, d0) + DaysOf(ops)
\* a month step never changes the day unless the day does not exist in the target month
KeepDay  == (OnlyMY(ops) /\ d0 <= MLen(y, m)) => PrintD = d0

\* constant sets for the configs (negative numbers cannot be written in a .cfg file)
KM_q == {-13, -12, -11, -2, -1, 1, 2, 3, 11, 12, 13}
KYR_q == {-4, -1, 1, 4}
KD_q == {-31, -1, 1, 30}
KM_t == {-25, -13, -12, -11, -3, -2, -1, 1, 2, 3, 11, 12, 13, 25}
KYR_t == {-100, -4, -1, 1, 4, 100}
KD_t == {-366, -31, -1, 1, 30, 365}
KM_e == {-1, 1, 2}
KYR_e == {1}
KD_e == {1}

Emit == PrintT(ToJson([s |-> <<y0, m0, d0>>, ops |-> ops, e |-> <<y, m, PrintD>>]))
=============================================================================
