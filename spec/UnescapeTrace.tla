--------------------------- MODULE UnescapeTrace ---------------------------
(* conformance of the real dt_io_unescape() (src/dt-io.c, called on an exact-size heap block under ASan) with Unescape!Unesc:
     Unesc(in, out, n)   the bytes handed in, the C string found in the block afterwards, and the block's size
   accepted iff out = Unesc(in) -- which also says that the terminator was stored where the meaning ends -- and n = Len(in)+1.
   The tools' own use is observed too:
     Lit(in, out)        `dconv -e -f LITERAL` printed out (all of it) for the literal in (no specifier inside): out = Unesc(in) and the auto-newline *)
EXTENDS Unescape, Json, IOUtils, TLCExt
VARIABLES l
Tr == ndJsonDeserialize(IOEnv.TRACE)
Ev == Tr[l]
TInit == l = 1 /\ Init
Keep == UNCHANGED vars /\ l' = l + 1
TReset == l <= Len(Tr) /\ Ev.e = "Reset" /\ Keep
TUnesc == l <= Len(Tr) /\ Ev.e = "Unesc" /\ Ev.out = Unesc(Ev.in) /\ Ev.n = Len(Ev.in) + 1 /\ Keep
\* the tools end a printed value with a newline unless it ends in one already (dt_io_strfdt's auto-newline); out is the whole output
AutoNL(s) == IF s # <<>> /\ s[Len(s)] = 10 THEN s ELSE s \o <<10>>
TLit == l <= Len(Tr) /\ Ev.e = "Lit" /\ Ev.out = AutoNL(Unesc(Ev.in)) /\ Keep
TNext == TReset \/ TUnesc \/ TLit
TSpec == TInit /\ [][TNext]_<<vars, l>>
Accepted == TLCGet("stats").diameter - 1 = Len(Tr)
=============================================================================
