--------------------------- MODULE UnescapeTrace ---------------------------
(* conformance of the real dt_io_unescape() (src/dt-io.c, called on an exact-size heap block under ASan) with Unescape!Unesc:
     Unesc(in, out, n)   the bytes handed in, the C string found in the block afterwards, and the block's size
   accepted iff out = Unesc(in) -- which also says that the terminator was stored where the meaning ends -- and n = Len(in)+1.
   The tools' own use is observed too:
     Lit(in, out)        `dconv -e -f LITERAL` printed out for the literal in (no specifier inside): out = Unesc(in) *)
EXTENDS Unescape, Json, IOUtils, TLCExt
VARIABLES l
Tr == ndJsonDeserialize(IOEnv.TRACE)
Ev == Tr[l]
TInit == l = 1 /\ Init
Keep == UNCHANGED vars /\ l' = l + 1
TReset == l <= Len(Tr) /\ Ev.e = "Reset" /\ Keep
TUnesc == l <= Len(Tr) /\ Ev.e = "Unesc" /\ Ev.out = Unesc(Ev.in) /\ Ev.n = Len(Ev.in) + 1 /\ Keep
TLit == l <= Len(Tr) /\ Ev.e = "Lit" /\ Ev.out = Unesc(Ev.in) /\ Keep
TNext == TReset \/ TUnesc \/ TLit
TSpec == TInit /\ [][TNext]_<<vars, l>>
Accepted == TLCGet("stats").diameter - 1 = Len(Tr)
=============================================================================
