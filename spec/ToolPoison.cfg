SPECIFICATION Spec
CONSTANTS INPUTS <- InputsDef
          MAXN = 4
          KIND = "poison"
INVARIANTS NoHiddenState
CHECK_DEADLOCK FALSE
