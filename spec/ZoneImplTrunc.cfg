SPECIFICATION Spec
CONSTANTS TNEG = 2
          TMAX = 4
          NTRMAX = 4
          NQ = 1
          NTY = 3
          BUGGY = FALSE
          TRNOMOD = 3
INVARIANTS Refines
CHECK_DEADLOCK FALSE
