-------------------------------- MODULE Lex --------------------------------
(* C10 (reading side): the specifier tokeniser lib/token.c:__tok_spec transcribed over an abstract alphabet, and the loop
   every formatter and parser runs around it ("while the format has bytes left: take one token, continue behind it").
   A state is a format string of byte CLASSES; position Len+1 holds the terminator, anything behind it is out of bounds.
   TLC builds every string up to MAXLEN and checks
     TokSafe    from every token start the loop can reach, the tokeniser reads no byte behind the terminator and hands back
                a continuation position <= Len+1  (so the loop's next "*fp" is inside the string)
     Progress   every token consumes at least one byte (the loop terminates)
   PINNED = TRUE models the code as pinned (the default branch steps over whatever byte follows the %, including the
   terminator) and must violate TokSafe: negative control.
   Every explored string is emitted; the orchestrator concretises the classes into bytes and replays them as format AND as
   input text on the real tokeniser, parsers, formatters and tools under AddressSanitizer (exact-size heap blocks). *)
EXTENDS Integers, Sequences, FiniteSets, TLC, Json
CONSTANTS MAXLEN, PINNED, EMITLEN
(* byte classes:  "%"  percent      "_"  a modifier byte other than O (_ 0 SPC - r)     "O"  the Roman modifier
                  "Y"  a numeric date specifier letter (Y y m u w c U V C W G g q F): an ordinal suffix may follow
                  "d"  d, j or D (ordinal and b/B suffix may follow)    "s"  s (%N may follow)    "N"  the letter N
                  "H"  any other specifier letter (H M S T I a A p P Z Q n)
                  "t" "h" "b"  the suffix letters (specifiers themselves: tab, month name)    "9"  a digit
                  "x"  any other byte (no specifier, no modifier) *)
Alpha == {"%", "_", "O", "Y", "d", "s", "N", "H", "t", "h", "b", "9", "x"}
VARIABLE str
Ch(s, i) == IF i >= 1 /\ i <= Len(s) THEN s[i] ELSE IF i = Len(s) + 1 THEN "NUL" ELSE "OOB"

(* __tok_spec(fp): returns [ep |-> continuation index, oob |-> did it read behind the terminator] *)
RECURSIVE SkipMods(_, _, _)
SkipMods(s, fp, rom) == IF Ch(s, fp) \in {"_", "O"} THEN SkipMods(s, fp + 1, rom \/ Ch(s, fp) = "O")    \* "goto next"
                        ELSE [fp |-> fp, rom |-> rom]
Tok(s, fp0) ==
  IF Ch(s, fp0) # "%" THEN [ep |-> fp0 + 1, oob |-> FALSE]
  ELSE LET m  == SkipMods(s, fp0 + 1, FALSE)
           fp == m.fp                           \* index of the byte the switch looks at
           c  == Ch(s, fp)
           \* ordinal suffix: fp[1] = t and fp[2] = h (short-circuit: fp[2] is read only behind a t), not for Roman numerals
           Ord(f) == IF ~m.rom /\ Ch(s, f + 1) = "t" /\ Ch(s, f + 2) = "h" THEN f + 2 ELSE f
       IN CASE c \in {"N", "H", "t", "h", "b", "%"} -> [ep |-> fp + 1, oob |-> FALSE]
            [] c = "Y" -> [ep |-> Ord(fp) + 1, oob |-> FALSE]
            [] c = "s" -> LET f2 == IF Ch(s, fp + 1) = "%" /\ Ch(s, fp + 2) = "N" THEN fp + 2 ELSE fp
                          IN [ep |-> f2 + 1, oob |-> FALSE]
            [] c = "d" -> LET f2 == Ord(fp)
                              \* bizda suffix: one byte of lookahead, kept only if it is b/B
                              f3 == IF Ch(s, f2 + 1) = "b" THEN f2 + 1 ELSE f2
                          IN [ep |-> f3 + 1, oob |-> Ch(s, f2 + 1) = "OOB"]
            [] c = "NUL" -> \* the format ends inside a specifier ("%", "%_", "%O" ...)
                 IF PINNED THEN [ep |-> fp + 1, oob |-> FALSE]     \* default: goto out, *ep = fp + 1: behind the terminator
                 ELSE [ep |-> fp, oob |-> FALSE]                   \* repaired: stay on the terminator
            [] OTHER -> [ep |-> fp + 1, oob |-> FALSE]             \* unknown specifier byte: consumed, printed literally
(* the positions at which the caller's loop starts a token *)
RECURSIVE Starts(_, _)
Starts(s, i) == IF i > Len(s) THEN {} ELSE {i} \cup Starts(s, Tok(s, i).ep)

Init == str = <<>>
Next == Len(str) < MAXLEN /\ \E a \in Alpha : str' = Append(str, a)
Spec == Init /\ [][Next]_str

TokSafe  == \A i \in Starts(str, 1) : ~Tok(str, i).oob /\ Tok(str, i).ep <= Len(str) + 1
Progress == \A i \in Starts(str, 1) : Tok(str, i).ep > i
NTok(s) == Cardinality(Starts(s, 1))
Emit == Len(str) <= EMITLEN => PrintT(ToJson([s |-> str, n |-> NTok(str)]))
=============================================================================
