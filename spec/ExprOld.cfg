SPECIFICATION Spec
CONSTANTS NATOM = 3
          MAXLEAF = 3
          OLD = TRUE
INVARIANTS Refines
CHECK_DEADLOCK FALSE
