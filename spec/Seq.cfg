SPECIFICATION Spec
CONSTANTS DAY = 6
          LMAX = 9
INVARIANTS Monotone NoSkipped Within StartsAtFirst EndsAtLast TodBound
PROPERTIES Terminates
CHECK_DEADLOCK FALSE
