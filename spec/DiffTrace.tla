------------------------------ MODULE DiffTrace ------------------------------
(* C05: datediff is the inverse of dateadd.  One event per ordered pair (A, B) and duration format:
   Diff(a, b, comps, neg, rcomps, rneg)
     a, b      the two values as [y, m, d, ldn, wd, sod] (looked up in the TLC day chain; Consistent re-derives ldn)
     comps     the components ddiff A B printed: [Y, m, w, d, b, H, M, S] (0 where the format has no such unit)
     neg       the output carried a minus sign;  rcomps, rneg: the same for ddiff B A
   Accepted iff  (1) Apply(earlier, comps) = later, where Apply is dateadd's own semantics (DateArith): months/years in
   one step keeping the day (the earlier value has day <= 28 whenever months or years are asked for), then weeks and
   days as index arithmetic, business days by counting Mon-Fri days, then hours/minutes/seconds with roll-over;
   (2) the sign tells which operand is earlier;  (3) ddiff B A is the same magnitude with the sign flipped. *)
EXTENDS Greg, Sequences, Json, IOUtils, TLCExt, TLC
VARIABLE l
Tr == ndJsonDeserialize(IOEnv.TRACE)
Ev == Tr[l]
D == 86400
Ldn(yy, mm, dd) == RD(yy, mm, dd) - RD1582
Consistent(p) == <<p.iy, p.iw>> = IsoOf(p.y, CumDays(p.y, p.m) + p.d, p.wd) /\ p.m \in 1..12 /\ p.d >= 1 /\ p.d <= MLen(p.y, p.m) /\ p.ldn = Ldn(p.y, p.m, p.d)
                 /\ p.wd = WdOfRD(RD(p.y, p.m, p.d)) /\ p.sod >= 0 /\ p.sod < D
Before(p, q) == p.ldn < q.ldn \/ (p.ldn = q.ldn /\ p.sod < q.sod)
Same(p, q) == p.ldn = q.ldn /\ p.sod = q.sod
\* k-th Mon-Fri day strictly after day n (k >= 0; k = 0 stays), by weekday arithmetic (Biz.tla: ClosedAddB)
WdOfLdn(n) == ((n + 4) % 7) + 1           \* chain day 0 is a Friday
AddB(n, k) == IF k = 0 THEN n
              ELSE LET w == WdOfLdn(n)
                       n0 == IF w <= 5 THEN n ELSE n - (w - 5)
                       w0 == WdOfLdn(n0)
                       q == k \div 5
                       r == k % 5
                   IN n0 + 7 * q + r + (IF w0 + r > 5 THEN 2 ELSE 0)
\* apply the components to e, largest unit first: <<ldn, sod>> reached
Apply(e, c) ==
  LET t == MonthAdd(e.y, e.m, 12 * c.Y + c.m)
      n1 == Ldn(t[1], t[2], ClampDay(t[1], t[2], e.d))
      n2 == AddB(n1 + 7 * c.w + c.d, c.b)
      ss == e.sod + c.H * 3600 + c.M * 60 + c.S
  IN <<n2 + (ss \div D), ss % D>>
\* year-week-day durations belong to the ISO week calendar: years move the ISO year keeping week and weekday (the week
\* clamped to the last one of the target year), weeks and days follow as index arithmetic
ApplyYwd(e, c) ==
  LET iy == e.iy + c.Y
      iw == IF e.iw > IsoWeeksInYear(iy) THEN IsoWeeksInYear(iy) ELSE e.iw
      n1 == IsoRD(iy, iw, e.wd) - RD1582
      ss == e.sod + c.H * 3600 + c.M * 60 + c.S
  IN <<n1 + 7 * c.w + c.d + (ss \div D), ss % D>>
AllZero(c) == c.Y = 0 /\ c.m = 0 /\ c.w = 0 /\ c.d = 0 /\ c.b = 0 /\ c.H = 0 /\ c.M = 0 /\ c.S = 0
TInit == l = 1
TDiff == /\ l <= Len(Tr) /\ Ev.e = "Diff"
         /\ Consistent(Ev.a) /\ Consistent(Ev.b)
         /\ LET ea == IF Before(Ev.b, Ev.a) THEN Ev.b ELSE Ev.a
                la == IF Before(Ev.b, Ev.a) THEN Ev.a ELSE Ev.b
            IN /\ (IF Ev.cal = "ywd" THEN ApplyYwd(ea, Ev.comps) ELSE Apply(ea, Ev.comps)) = <<la.ldn, la.sod>>
               /\ (Ev.neg <=> (Before(Ev.b, Ev.a) /\ ~AllZero(Ev.comps)))
               /\ Ev.rcomps = Ev.comps
               /\ (Ev.rneg <=> (Before(Ev.a, Ev.b) /\ ~AllZero(Ev.comps)))
         /\ l' = l + 1
TNext == TDiff
TSpec == TInit /\ [][TNext]_l
Accepted == TLCGet("stats").diameter - 1 = Len(Tr)
=============================================================================
