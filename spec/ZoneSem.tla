------------------------------- MODULE ZoneSem -------------------------------
(* (S) semantics of a zoneinfo (TZif) transition table (C12, C13).
   trs   strictly increasing transition instants (any totally ordered encoding: lookup depends on order only,
         so instants may be rank-compressed)
   typ   local-time type index (0-based) in force from trs[i] on
   ofs   UTC offset in seconds of every type (1-based by typ+1)
   The offset in force at t is that of the last transition at or before t; after the last listed transition
   the last offset stays in force; before the first one nothing is promised (-> Undef).
   zone ranges (datezone --next/--prev) are taken on the table with same-type neighbours merged. *)
EXTENDS Integers, Sequences, FiniteSets
VARIABLES trs, typ, ofs
zvars == <<trs, typ, ofs>>
Undef == -999999

\* trs is sorted, so the number of entries <= t is the index of the last one
LastIdx(t) == Cardinality({i \in 1..Len(trs) : trs[i] <= t})
OffsAt(t) == IF LastIdx(t) = 0 THEN Undef ELSE ofs[typ[LastIdx(t)] + 1]

\* indices that survive the merging of same-type neighbours
Kept == {i \in 1..Len(trs) : i = 1 \/ typ[i - 1] # typ[i]}
KeptLE(t) == {i \in Kept : trs[i] <= t}
KeptGT(t) == {i \in Kept : trs[i] > t}
MaxOf(S) == CHOOSE x \in S : \A y \in S : y <= x
MinOf(S) == CHOOSE x \in S : \A y \in S : x <= y
\* the zone range containing t: <<prev instant, next instant>>; RMIN / RMAX where the table ends
RMIN == -1
RMAX == -2
RngOf(t) == << IF KeptLE(t) = {} THEN RMIN ELSE trs[MaxOf(KeptLE(t))],
               IF KeptGT(t) = {} THEN RMAX ELSE trs[MinOf(KeptGT(t))] >>

WellFormed == /\ Len(typ) = Len(trs)
              /\ \A i \in 1..(Len(trs) - 1) : trs[i] < trs[i + 1]
              /\ \A i \in 1..Len(typ) : typ[i] + 1 \in 1..Len(ofs)
=============================================================================
