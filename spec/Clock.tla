-------------------------------- MODULE Clock --------------------------------
(* (S) time-of-day and epoch arithmetic across midnight (C11) and (I) the carry mechanism of dt_dtadd / dt_tadd_s.
   A date-time is <<day, sod>> with sod in 0..D-1; its epoch value is day*D + sod.  D is the number of seconds per
   day (86400; the exhaustive configuration scales it to 6 so that every carry / negative remainder case is visited).
     S:  AddS(k)   epoch' = epoch + k                   (floor division for the day roll-over)
     I:  Carry     carry = trunc(k / D), r = k rem D (C semantics), then divrem(sod + r, D) gives the time and a
                   -1/0/+1 day carry kept in a 4-bit signed slot; the date moves by the sum of both carries
   Refines: the mechanism lands on the same <<day, sod>> as the definition; the slot never overflows.
   NOSPLIT = TRUE removes the pre-split (k added to sod at once): the slot then overflows for |k| > 7 days
   and TLC refutes Refines -- the negative control.  24:00:00 is <<day, D>> and denotes <<day + 1, 0>>. *)
EXTENDS Integers, TLC
CONSTANTS D, KMAX, NOSPLIT
VARIABLES day, sod, k
vars == <<day, sod, k>>
Init == day \in 0..2 /\ sod \in 0..(D - 1) /\ k \in (-KMAX)..KMAX
Next == UNCHANGED vars
Spec == Init /\ [][Next]_vars

Epoch(t) == t[1] * D + t[2]
\* S: the definition
AddS(t, n) == << (Epoch(t) + n) \div D, (Epoch(t) + n) % D >>
Mil(t) == IF t[2] = D THEN <<t[1] + 1, 0>> ELSE t

\* I: C arithmetic
Abs(x) == IF x < 0 THEN -x ELSE x
TruncDiv(a, b) == IF a >= 0 THEN a \div b ELSE -((-a) \div b)
CRem(a, b) == a - b * TruncDiv(a, b)
\* a 4-bit signed slot wraps into -8..7
Slot4(c) == ((c + 8) % 16) - 8
Mech(t, n) ==
  LET c1 == IF NOSPLIT THEN 0 ELSE TruncDiv(n, D)
      r == IF NOSPLIT THEN n ELSE CRem(n, D)
      sec == t[2] + r
      c2 == Slot4(sec \div D)          \* divrem(): floor division, stored in t.carry:4
  IN << t[1] + c1 + c2, sec % D >>

Refines == Mech(<<day, sod>>, k) = AddS(<<day, sod>>, k)
Inverse == AddS(AddS(<<day, sod>>, k), -k) = <<day, sod>>
EpochRT == AddS(<<0, 0>>, Epoch(<<day, sod>>)) = <<day, sod>>
MilOK   == Mil(<<day, D>>) = AddS(<<day, D - 1>>, 1)
=============================================================================
