SPECIFICATION Spec
CONSTANTS NY = 3
          NH = 2
          NM = 2
          NS = 3
INVARIANTS Agree Idempotent Strict Stays CoAgree CoIdem
CHECK_DEADLOCK FALSE
