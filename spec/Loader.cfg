SPECIFICATION Spec
CONSTANTS MAXCNT = 1
          CHECKED = TRUE
          FULL = FALSE
INVARIANTS Safe Exact Emit
CHECK_DEADLOCK FALSE
