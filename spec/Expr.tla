--------------------------------- MODULE Expr ---------------------------------
(* dategrep expressions (C17).  (S): ordinary Boolean semantics of an expression tree over comparison atoms, with a
   negation flag on every node (the parser's representation): Eval.  (I): the mechanism of src/dexpr.c as repaired --
   negations are pushed down to the atoms by De Morgan (__denega: a negated atom complements its operator), then the
   tree is evaluated recursively.  TLC checks for every tree of up to MAXLEAF leaves over NATOM atoms with every placement
   of negation flags and every valuation that the mechanism equals Eval and that no negation flag survives the push-down.
   OLD = TRUE selects the pinned mechanism (negated disjunction stays a disjunction, evaluator assumes a right-leaning
   DNF), which TLC refutes -- negative control.  Every tree is emitted and run through the real dgrep. *)
EXTENDS Integers, Sequences, TLC, FiniteSets, Json
CONSTANTS NATOM, MAXLEAF, OLD
Atoms == 1..NATOM
Val(a, ng) == [t |-> "val", a |-> a, neg |-> ng]
Jn(tp, ng, l, r) == [t |-> tp, neg |-> ng, l |-> l, r |-> r]
(* trees by number of leaves.  T1..T3 are constant-level definitions (TLC evaluates each once); trees of four leaves are not
   enumerated as initial states (TLC computes initial states on one thread) but grown by Next from a seed state that
   holds the split and the left subtree, so that the workers share them *)
Comb(L, R) == { Jn(tp, ng, l, r) : tp \in {"conj", "disj"}, ng \in BOOLEAN, l \in L, r \in R }
T1 == { Val(a, ng) : a \in Atoms, ng \in BOOLEAN }
T2 == Comb(T1, T1)
T3 == Comb(T1, T2) \cup Comb(T2, T1)
Small == T1 \cup (IF MAXLEAF >= 2 THEN T2 ELSE {}) \cup (IF MAXLEAF >= 3 THEN T3 ELSE {})
\* seeds for four leaves: the left subtree (1, 2 or 3 leaves); the right one then has 3, 2 or 1
Seeds == IF MAXLEAF >= 4 THEN { [t |-> "seed", l |-> l] : l \in T1 \cup T2 \cup T3 } ELSE {}
RightOf(l) == IF l \in T1 THEN T3 ELSE IF l \in T2 THEN T2 ELSE T1
Valuations == [Atoms -> BOOLEAN]

\* (S) reference semantics; a negative atom number -a stands for the complemented comparison
AtomVal(a, v) == IF a > 0 THEN v[a] ELSE ~v[-a]
RECURSIVE Eval(_, _)
Eval(n, v) == LET b == IF n.t = "val" THEN AtomVal(n.a, v)
                       ELSE IF n.t = "conj" THEN Eval(n.l, v) /\ Eval(n.r, v)
                       ELSE Eval(n.l, v) \/ Eval(n.r, v)
              IN IF n.neg THEN ~b ELSE b

\* (I) __denega
Flip(n) == [n EXCEPT !.neg = ~n.neg]
Dual(tp) == IF OLD THEN "disj" ELSE IF tp = "conj" THEN "disj" ELSE "conj"
RECURSIVE Denega(_)
Denega(n) ==
  IF n.neg
  THEN IF n.t = "val" THEN [n EXCEPT !.neg = FALSE, !.a = -n.a]
       ELSE Jn(Dual(n.t), FALSE, Denega(Flip(n.l)), Denega(Flip(n.r)))
  ELSE IF n.t = "val" THEN n
       ELSE Jn(n.t, FALSE, Denega(n.l), Denega(n.r))
RECURSIVE NoNeg(_)
NoNeg(n) == ~n.neg /\ (n.t = "val" \/ (NoNeg(n.l) /\ NoNeg(n.r)))
\* evaluators: recursive (repaired) / DNF-assuming right-spine walker (pinned)
RECURSIVE ConjM(_, _)
ConjM(n, v) == IF n.t = "conj" THEN (IF n.l.t = "val" THEN AtomVal(n.l.a, v) ELSE FALSE) /\ ConjM(n.r, v)
               ELSE IF n.t = "val" THEN AtomVal(n.a, v) ELSE FALSE
RECURSIVE DisjM(_, _)
DisjM(n, v) == IF n.t = "disj" THEN ConjM(n.l, v) \/ DisjM(n.r, v) ELSE ConjM(n, v)
Mech(n, v) == IF OLD THEN DisjM(Denega(n), v) ELSE Eval(Denega(n), v)

VARIABLE tree
Init == tree \in Small \cup Seeds
Next == /\ tree.t = "seed"
        /\ \E tp \in {"conj", "disj"}, ng \in BOOLEAN, r \in RightOf(tree.l) : tree' = Jn(tp, ng, tree.l, r)
Spec == Init /\ [][Next]_tree
IsTree == tree.t # "seed"
Refines == IsTree => \A v \in Valuations : Mech(tree, v) = Eval(tree, v)
PushedDown == IsTree => NoNeg(Denega(tree))
Emit == IsTree => PrintT(ToJson(tree))
=============================================================================
