--------------------------------- MODULE Expr ---------------------------------
(* dategrep expressions (C17).  (S): ordinary Boolean semantics of an expression tree over comparison atoms, with a
   negation flag on every node (the parser's representation): Eval.  (I): the mechanism of src/dexpr.c as repaired --
   negations are pushed down to the atoms by De Morgan (__denega: a negated atom complements its operator), then the
   tree is evaluated recursively.  TLC checks for every tree of up to MAXLEAF leaves over NATOM atoms with every placement
   of negation flags and every valuation that the mechanism equals Eval and that no negation flag survives the push-down.
   OLD = TRUE selects the pinned mechanism (negated disjunction stays a disjunction, evaluator assumes a right-leaning
   DNF), which TLC refutes -- negative control.  Every tree is emitted and run through the real dgrep. *)
EXTENDS Integers, Sequences, TLC, FiniteSets, Json
CONSTANTS NATOM, MAXLEAF, OLD
Atoms == 1..NATOM
Val(a, ng) == [t |-> "val", a |-> a, neg |-> ng]
Jn(tp, ng, l, r) == [t |-> tp, neg |-> ng, l |-> l, r |-> r]
RECURSIVE TreesN(_)
TreesN(k) == IF k = 1 THEN { Val(a, ng) : a \in Atoms, ng \in BOOLEAN }
             ELSE UNION { { Jn(tp, ng, l, r) : tp \in {"conj", "disj"}, ng \in BOOLEAN,
                                               l \in TreesN(i), r \in TreesN(k - i) } : i \in 1..(k - 1) }
Trees == UNION { TreesN(k) : k \in 1..MAXLEAF }
Valuations == [Atoms -> BOOLEAN]

\* (S) reference semantics; a negative atom number -a stands for the complemented comparison
AtomVal(a, v) == IF a > 0 THEN v[a] ELSE ~v[-a]
RECURSIVE Eval(_, _)
Eval(n, v) == LET b == IF n.t = "val" THEN AtomVal(n.a, v)
                       ELSE IF n.t = "conj" THEN Eval(n.l, v) /\ Eval(n.r, v)
                       ELSE Eval(n.l, v) \/ Eval(n.r, v)
              IN IF n.neg THEN ~b ELSE b

\* (I) __denega
Flip(n) == [n EXCEPT !.neg = ~n.neg]
Dual(tp) == IF OLD THEN "disj" ELSE IF tp = "conj" THEN "disj" ELSE "conj"
RECURSIVE Denega(_)
Denega(n) ==
  IF n.neg
  THEN IF n.t = "val" THEN [n EXCEPT !.neg = FALSE, !.a = -n.a]
       ELSE Jn(Dual(n.t), FALSE, Denega(Flip(n.l)), Denega(Flip(n.r)))
  ELSE IF n.t = "val" THEN n
       ELSE Jn(n.t, FALSE, Denega(n.l), Denega(n.r))
RECURSIVE NoNeg(_)
NoNeg(n) == ~n.neg /\ (n.t = "val" \/ (NoNeg(n.l) /\ NoNeg(n.r)))
\* evaluators: recursive (repaired) / DNF-assuming right-spine walker (pinned)
RECURSIVE ConjM(_, _)
ConjM(n, v) == IF n.t = "conj" THEN (IF n.l.t = "val" THEN AtomVal(n.l.a, v) ELSE FALSE) /\ ConjM(n.r, v)
               ELSE IF n.t = "val" THEN AtomVal(n.a, v) ELSE FALSE
RECURSIVE DisjM(_, _)
DisjM(n, v) == IF n.t = "disj" THEN ConjM(n.l, v) \/ DisjM(n.r, v) ELSE ConjM(n, v)
Mech(n, v) == IF OLD THEN DisjM(Denega(n), v) ELSE Eval(Denega(n), v)

VARIABLE tree
Init == tree \in Trees
Next == UNCHANGED tree
Spec == Init /\ [][Next]_tree
Refines == \A v \in Valuations : Mech(tree, v) = Eval(tree, v)
PushedDown == NoNeg(Denega(tree))
Emit == PrintT(ToJson(tree))
=============================================================================
