------------------------------ MODULE CycleTable ------------------------------
(* (I) the character-class table of lib/strops.c: a static table[ALPHA] tagged with a generation counter `cycle'
   instead of being cleared for every search; when the counter reaches WRAP the table is cleared and the counter
   restarts at 1.  TLC checks, for every history of up to MAXCALLS set_up_table calls (crossing the wrap several
   times), that membership answers depend on the last call only:  InSet(c) <=> c in last set (or c = NUL when asked).
   NOWRAP = TRUE drops the clearing at the wrap (stale tags become current again): refuted, negative control. *)
EXTENDS Integers, FiniteSets, TLC
CONSTANTS ALPHA, WRAP, MAXCALLS, NOWRAP
Chars == 1..ALPHA                 \* 0 is NUL
VARIABLES table, cycle, lastset, lastnul, ncalls
vars == <<table, cycle, lastset, lastnul, ncalls>>
Init == table = [c \in 0..ALPHA |-> 0] /\ cycle = 0 /\ lastset = {} /\ lastnul = FALSE /\ ncalls = 0
SetUp(S, nul) ==
  /\ ncalls < MAXCALLS /\ ncalls' = ncalls + 1
  /\ LET wrap == cycle = WRAP
         cy == IF wrap THEN 1 ELSE cycle + 1
         base == IF wrap /\ ~NOWRAP THEN [c \in 0..ALPHA |-> 0] ELSE table
     IN /\ cycle' = cy
        /\ table' = [c \in 0..ALPHA |-> IF c = 0 THEN (IF nul THEN cy ELSE 0) ELSE IF c \in S THEN cy ELSE base[c]]
  /\ lastset' = S /\ lastnul' = nul
Next == \E S \in SUBSET Chars, nul \in BOOLEAN : SetUp(S, nul)
Spec == Init /\ [][Next]_vars
InSet(c) == table[c] = cycle
Membership == ncalls > 0 => /\ \A c \in Chars : InSet(c) <=> c \in lastset
                            /\ InSet(0) <=> lastnul
=============================================================================
