-------------------------------- MODULE Buf --------------------------------
(* C10 (writing side): the write discipline of the formatters dt_strfdt / dt_strfd / dt_strft / dt_strf*dur and of the
   tools' line writers.  A format is a sequence of writer CLASSES; the loop is the code's:
       while format left and bp < eo:  take a token;  run its writer with (eo - bp);  maybe append a suffix
       afterwards: terminate if bp < eo;  the tools then append a newline
   Writer classes (what the real field printers do, lib/*-strpf.c, lib/strops.h):
     lit   one byte, covered by the loop guard              clip(n)  writes min(n, room) bytes (digit printers, names)
     aon(n) writes n bytes or nothing (%F needs 10, %T 8)   sfx      one suffix byte after a field (b/B of bizda specs)
     ord    two suffix bytes after a number (st/nd/rd/th)    fix(n)  n bytes written without asking for the room (Q1, 01, 000)
   Invariant Within: the write position never passes the end of the buffer and the value returned is <= bsz.
   GUARDED = TRUE is the discipline the repaired code follows (every suffix / fixed writer asks for room first);
   GUARDED = FALSE is the pinned one (suffix byte, quarter, fallback zeros and the appended newline do not ask) and must
   violate Within: negative control.  Every (format, bsz) TLC explores is replayed on the real formatters with an
   exact-size heap buffer under AddressSanitizer. *)
EXTENDS Integers, Sequences, TLC, Json
CONSTANTS MAXTOK, MAXBSZ, GUARDED
Classes == {"lit", "clip2", "clip4", "aon10", "sfx", "ord", "fix2", "fix3"}
VARIABLES fmt, bsz, pos, i, nl
vars == <<fmt, bsz, pos, i, nl>>
Min(a, b) == IF a < b THEN a ELSE b
Room == bsz - pos
W(c) == CASE c = "lit"   -> 1
          [] c = "clip2" -> Min(2, Room)
          [] c = "clip4" -> Min(4, Room)
          [] c = "aon10" -> IF Room >= 10 THEN 10 ELSE 0
          [] c = "sfx"   -> Min(2, Room) + (IF GUARDED THEN (IF Room - Min(2, Room) >= 1 THEN 1 ELSE 0) ELSE 1)
          [] c = "ord"   -> Min(2, Room) + (IF Room - Min(2, Room) >= 2 THEN 2 ELSE 0)
          [] c = "fix2"  -> IF GUARDED THEN (IF Room >= 2 THEN 2 ELSE 0) ELSE 2
          [] c = "fix3"  -> IF GUARDED THEN (IF Room >= 3 THEN 3 ELSE 0) ELSE 3
Init == /\ fmt \in UNION {[1..n -> Classes] : n \in 1..MAXTOK} /\ bsz \in 1..MAXBSZ /\ pos = 0 /\ i = 1 /\ nl = FALSE
Step == /\ i <= Len(fmt) /\ pos < bsz           \* the loop guard: *fp && bp < eo
        /\ pos' = pos + W(fmt[i]) /\ i' = i + 1 /\ UNCHANGED <<fmt, bsz, nl>>
\* the tools' auto-newline (dt_io_strfdt): appended when the text does not end in one
Newline == /\ (i > Len(fmt) \/ pos >= bsz) /\ ~nl /\ nl' = TRUE
           /\ pos' = IF GUARDED THEN (IF pos < bsz THEN pos + 1 ELSE pos) ELSE pos + 1
           /\ UNCHANGED <<fmt, bsz, i>>
Next == Step \/ Newline
Spec == Init /\ [][Next]_vars
Within == pos <= bsz
Emit == (pos = 0 /\ i = 1 /\ ~nl) => PrintT(ToJson([f |-> fmt, b |-> bsz]))
=============================================================================
