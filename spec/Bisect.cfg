SPECIFICATION Spec
CONSTANTS NMAX = 7
          VMAX = 9
          OLD = FALSE
INVARIANTS Refines InRange Emit
PROPERTIES Progress
CHECK_DEADLOCK FALSE
