--------------------------------- MODULE Seq ---------------------------------
(* (S) semantics of dateseq (C15): dseq FIRST INC LAST prints, in order, exactly the elements of the arithmetic
   progression FIRST + k*INC (k = 0, 1, 2, ...) that lie between FIRST and LAST inclusive and do not fall on a skipped
   weekday, and then stops.  Three kinds of progression:
     "lin"  values on an integer line (chain day numbers for dates; seconds relative to FIRST for date-times);
            with --compute-from-last the progression is anchored so that it ends on LAST
     "mon"  month/year increments: element k is FIRST plus k*IM months taken in ONE step (end of month clamped)
            plus k*ID days; values are chain day numbers, FIRST is <<y, m, d>>
     "tod"  times of day (seconds 0..DAY-1): the progression runs around the clock in the direction of INC until LAST
            is passed: element k is (FIRST + k*INC) mod DAY while FIRST + k*INC has not passed LAST unwrapped
   A progression that can never reach LAST (zero increment, wrong direction) is refused or empty, never endless.
   The module is a state machine Start -> Emit* -> Stop so that TLC checks safety (monotone, no duplicates, in range,
   nothing skipped printed) and liveness (<>done under weak fairness) on small lines, and so that SeqTrace can replay
   recorded runs of the real tool event by event. *)
EXTENDS Greg, Sequences, FiniteSets, TLC
CONSTANTS DAY           \* seconds per day for kind "tod" (86400; 6 in the exhaustive configuration)
VARIABLES kind, first, inc, last, skip, cfl, wd0,    \* the instance (first: integer, or <<y,m,d>> for "mon"; inc: integer, or <<im, id>>)
          k, done, outs
ivars == <<kind, first, inc, last, skip, cfl, wd0>>
vars == <<kind, first, inc, last, skip, cfl, wd0, k, done, outs>>

Abs(x) == IF x < 0 THEN -x ELSE x
\* weekday of chain day i (chain day 0 = 1582-10-15 is a Friday): wd0 is the weekday of day 0 of the line
WdOf(i) == ((i + wd0 - 1) % 7) + 1

\* ---- lin
LinAnchor == IF ~cfl \/ inc = 0 THEN first ELSE last - (Abs(last - first) \div Abs(inc)) * inc
LinElem(j) == LinAnchor + j * inc
LinIn(x) == IF inc > 0 THEN first <= x /\ x <= last ELSE last <= x /\ x <= first
\* ---- mon
LdnOf(yy, mm, dd) == RD(yy, mm, dd) - RD1582
MonElem(j) == LET t == MonthAdd(first[1], first[2], j * inc[1])
              IN LdnOf(t[1], t[2], ClampDay(t[1], t[2], first[3])) + j * inc[2]
MonFirst == LdnOf(first[1], first[2], first[3])
MonDir == IF inc[1] # 0 THEN inc[1] ELSE inc[2]
MonIn(x) == IF MonDir > 0 THEN MonFirst <= x /\ x <= last ELSE last <= x /\ x <= MonFirst
\* ---- tod: unwrapped last
\* FIRST = LAST is read as one full lap around the clock ending on LAST again (the tool's reading; the property text
\* leaves it open), otherwise LAST is reached within less than a day
TodLast == IF inc > 0 THEN (IF last > first THEN last ELSE last + DAY)
           ELSE (IF last < first THEN last ELSE last - DAY)
\* --compute-from-last: anchored so that the run ends on LAST
TodAnchor == IF ~cfl \/ inc = 0 THEN first ELSE TodLast - (Abs(TodLast - first) \div Abs(inc)) * inc
TodLin(j) == TodAnchor + j * inc
TodIn(x) == IF inc > 0 THEN x <= TodLast ELSE x >= TodLast

Elem(j) == CASE kind = "lin" -> LinElem(j) [] kind = "mon" -> MonElem(j) [] kind = "tod" -> TodLin(j) % DAY
InRange(j) == CASE kind = "lin" -> LinIn(LinElem(j)) [] kind = "mon" -> MonIn(MonElem(j)) [] kind = "tod" -> TodIn(TodLin(j))
Skipped(j) == kind # "tod" /\ skip # {} /\ WdOf(Elem(j)) \in skip
Dir == CASE kind = "lin" -> inc [] kind = "mon" -> MonDir [] kind = "tod" -> inc
FirstVal == IF kind = "mon" THEN MonFirst ELSE first
\* refused / empty: zero increment, or (dates) the increment points away from LAST
Refusable == Dir = 0 \/ (kind # "tod" /\ ((Dir > 0 /\ FirstVal > last) \/ (Dir < 0 /\ FirstVal < last)))
\* next index >= j whose element is in range and not skipped; -1 if none
RECURSIVE NextIdx(_)
NextIdx(j) == IF Refusable \/ ~InRange(j) THEN -1
              ELSE IF Skipped(j) THEN NextIdx(j + 1) ELSE j

Emit == /\ ~done /\ NextIdx(k) >= 0
        /\ outs' = Append(outs, Elem(NextIdx(k))) /\ k' = NextIdx(k) + 1
        /\ UNCHANGED <<done>> /\ UNCHANGED ivars
Stop == /\ ~done /\ NextIdx(k) = -1 /\ done' = TRUE /\ UNCHANGED <<k, outs>> /\ UNCHANGED ivars
Next == Emit \/ Stop \/ (done /\ UNCHANGED vars)

\* ---- the exhaustive small-scope model: all instances on a short line
CONSTANTS LMAX
InitLin == /\ kind = "lin" /\ first \in 0..LMAX /\ last \in 0..LMAX /\ inc \in -3..3
           /\ skip \in {{}, {6, 7}, {1}} /\ cfl \in BOOLEAN /\ wd0 \in {1, 5}
InitTod == /\ kind = "tod" /\ first \in 0..(DAY - 1) /\ last \in 0..(DAY - 1) /\ inc \in -4..4
           /\ skip = {} /\ cfl \in BOOLEAN /\ wd0 = 1
InitMon == /\ kind = "mon" /\ first \in {<<2011, 11, 30>>, <<2012, 1, 31>>, <<2012, 2, 29>>}
           /\ inc \in {<<1, 0>>, <<-1, 0>>, <<12, 0>>, <<1, 1>>, <<0, 0>>, <<3, 0>>}
           /\ last \in {LdnOf(2012, 6, 30), LdnOf(2011, 6, 1), LdnOf(2016, 3, 1)}
           /\ skip \in {{}, {6, 7}} /\ cfl = FALSE /\ wd0 = 5
Init == (InitLin \/ InitTod \/ InitMon) /\ k = 0 /\ done = FALSE /\ outs = <<>>
Spec == Init /\ [][Next]_vars /\ WF_vars(Emit \/ Stop)

Sgn(x) == IF x > 0 THEN 1 ELSE IF x < 0 THEN -1 ELSE 0
\* safety
Monotone == kind # "tod" => \A i \in 1..(Len(outs) - 1) : Sgn(outs[i + 1] - outs[i]) = Sgn(Dir)
NoSkipped == kind # "tod" => \A i \in 1..Len(outs) : skip = {} \/ WdOf(outs[i]) \notin skip
Within == kind = "lin" => \A i \in 1..Len(outs) : LinIn(outs[i])
StartsAtFirst == (kind = "lin" /\ ~cfl /\ Len(outs) > 0 /\ skip = {}) => outs[1] = first
EndsAtLast == /\ (kind = "lin" /\ cfl /\ done /\ Len(outs) > 0 /\ skip = {}) => outs[Len(outs)] = last
              /\ (kind = "tod" /\ cfl /\ done /\ Len(outs) > 0) => outs[Len(outs)] = last
TodBound == kind = "tod" => Len(outs) <= DAY + 1
\* liveness: every run stops
Terminates == <>done
=============================================================================
