SPECIFICATION Spec
CONSTANTS
  MAXLINES = 3
  GAPS = {1, 29, 31, 182, 184, 365, 366, 1461}
  STEPS = {0, 1}
  ND0 = 26298
  Emit = TRUE
INVARIANTS TypeOK Refines SWellFormed StaticsReset
CHECK_DEADLOCK FALSE
