SPECIFICATION Spec
CONSTANTS
  MAXLINES = 5
  GAPS = {1, 28, 181, 366, 1461}
  STEPS = {0, 1}
  ND0 = 26298
  Emit = FALSE
INVARIANTS TypeOK Refines SWellFormed StaticsReset
CHECK_DEADLOCK FALSE
