SPECIFICATION Spec
CONSTANT KMAX = 60
INVARIANTS LandsOnBiz Strict ClosedOK Inverse Additive Emit
CHECK_DEADLOCK FALSE
