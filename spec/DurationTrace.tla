---------------------------- MODULE DurationTrace ----------------------------
(* Direction B for C06: one event per ddiff run.
   Split(dd, ds, units, vals, minus, lead)   dd, ds: B - A in whole days and seconds with the sign of the difference
   (re-encoding of the two inputs, |dd*86400+ds| is the total); units: the requested fixed-length units; vals: the
   integers printed for them; minus: number of minus signs in the output; lead: the output starts with the minus sign.
   Accepted iff vals = Split(|total|) and exactly one leading minus sign appears iff the truncated total is negative. *)
EXTENDS Duration, Json, IOUtils, TLCExt
VARIABLE l
Tr == ndJsonDeserialize(IOEnv.TRACE)
Ev == Tr[l]
TInit == l = 1 /\ D = 0 /\ s = 0 /\ U = {"S"}
Neg(e) == e.dd < 0 \/ (e.dd = 0 /\ e.ds < 0)
\* magnitude as <<days, secs>>: flip the sign if negative, then borrow a day if the seconds are negative
FlipD(e) == IF Neg(e) THEN -e.dd ELSE e.dd
FlipS(e) == IF Neg(e) THEN -e.ds ELSE e.ds
AbsD(e) == IF FlipS(e) < 0 THEN FlipD(e) - 1 ELSE FlipD(e)
AbsS(e) == IF FlipS(e) < 0 THEN FlipS(e) + 86400 ELSE FlipS(e)
US(e) == {e.units[i] : i \in 1..Len(e.units)}
AllZero(v) == v.w = 0 /\ v.d = 0 /\ v.H = 0 /\ v.M = 0 /\ v.S = 0
TSplit == /\ l <= Len(Tr) /\ Ev.e = "Split"
          /\ LET v == Split2(AbsD(Ev), AbsS(Ev), US(Ev)) IN
             /\ \A u \in US(Ev) : Ev.vals[u] = v[u]
             \* a negative total that truncates to zero may be printed as -0 (still one leading sign)
             /\ IF Neg(Ev) /\ ~AllZero(v) THEN Ev.minus = 1 /\ Ev.lead
                ELSE Ev.minus = 0 \/ (Ev.minus = 1 /\ Ev.lead /\ Neg(Ev))
          /\ l' = l + 1 /\ UNCHANGED vars
\* seconds as the only unit for spans that do not fit TLC's 32-bit integers: the printed number is re-encoded as
\* <<number div 86400, number mod 86400>> and must be the magnitude <<days, seconds>> of the difference
TBigS == /\ l <= Len(Tr) /\ Ev.e = "BigS"
         /\ Ev.hi = AbsD(Ev) /\ Ev.lo = AbsS(Ev)
         /\ IF Neg(Ev) THEN Ev.minus = 1 /\ Ev.lead ELSE Ev.minus = 0
         /\ l' = l + 1 /\ UNCHANGED vars
TNext == TSplit \/ TBigS
TSpec == TInit /\ [][TNext]_<<vars, l>>
Accepted == TLCGet("stats").diameter - 1 = Len(Tr)
=============================================================================
