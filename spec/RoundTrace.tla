----------------------------- MODULE RoundTrace -----------------------------
(* Direction B for C16: runs of the real dround.  The constructive rounding rule that Round.tla proves equal to the
   declarative meaning (nearest admissible point on the requested side) on the scaled calendar is applied here on the
   real calendar (Greg).  Input x and result res are logged decomposed: [ldn, y, m, d, wd, sod] (the orchestrator looks
   the printed dates up in the TLC-emitted day chain; Consistent ties the decomposition back to the timeline).
     Reset(x)                          the input value of an invocation
     Round(kind, v, dir, next, res)    one RNDSPEC applied to the current value; several of them chain left to right *)
EXTENDS Greg, Sequences, Json, IOUtils, TLCExt, TLC
VARIABLES l, cur
Tr == ndJsonDeserialize(IOEnv.TRACE)
Ev == Tr[l]
D == 86400
Ldn(yy, mm, dd) == RD(yy, mm, dd) - RD1582
Consistent(p) == /\ p.m \in 1..12 /\ p.d >= 1 /\ p.d <= MLen(p.y, p.m) /\ p.ldn = Ldn(p.y, p.m, p.d)
                 /\ p.wd = WdOfRD(RD(p.y, p.m, p.d)) /\ p.sod >= 0 /\ p.sod < D
\* lexicographic position
Lt(a, b) == a.ldn < b.ldn \/ (a.ldn = b.ldn /\ a.sod < b.sod)
Eq(a, b) == a.ldn = b.ldn /\ a.sod = b.sod
Wrong(c, x, dir, next) == IF dir > 0 THEN Lt(c, x) \/ (next /\ Eq(c, x)) ELSE Lt(x, c) \/ (next /\ Eq(c, x))
\* a candidate given by calendar fields / by day number
ByYmd(yy, mm, dd, ss) == [ldn |-> Ldn(yy, mm, dd), y |-> yy, m |-> mm, d |-> dd, sod |-> ss]
ByLdn(ld, ss) == [ldn |-> ld + (ss \div D), sod |-> ss % D]
SameYmd(r, c) == r.y = c.y /\ r.m = c.m /\ r.d = c.d /\ r.sod = c.sod /\ r.ldn = c.ldn
SameLdn(r, c) == r.ldn = c.ldn /\ r.sod = c.sod

RoundOK(x, kind, v, dir, next, r) ==
  CASE kind = "wd" ->
         LET delta0 == IF dir > 0 THEN (v - x.wd + 7) % 7 ELSE -((x.wd - v + 7) % 7)
             delta == IF delta0 = 0 /\ next THEN 7 * dir ELSE delta0
         IN SameLdn(r, ByLdn(x.ldn + delta, x.sod)) /\ r.wd = v
    [] kind = "mon" ->
         LET c == ByYmd(x.y, v, ClampDay(x.y, v, x.d), x.sod)
             yy == IF Wrong(c, x, dir, next) THEN x.y + dir ELSE x.y
         IN SameYmd(r, ByYmd(yy, v, ClampDay(yy, v, x.d), x.sod))
    [] kind = "dom" ->
         LET c == ByYmd(x.y, x.m, ClampDay(x.y, x.m, v), x.sod)
             t == IF Wrong(c, x, dir, next) THEN MonthAdd(x.y, x.m, dir) ELSE <<x.y, x.m>>
         IN SameYmd(r, ByYmd(t[1], t[2], ClampDay(t[1], t[2], v), x.sod))
    [] kind = "h" ->
         LET c == ByLdn(x.ldn, v * 3600 + (x.sod % 3600))
         IN SameLdn(r, IF Wrong(c, x, dir, next) THEN ByLdn(x.ldn + dir, c.sod) ELSE c)
    [] kind = "mi" ->
         LET c == ByLdn(x.ldn, (x.sod \div 3600) * 3600 + v * 60 + (x.sod % 60))
         IN SameLdn(r, IF Wrong(c, x, dir, next) THEN ByLdn(x.ldn, c.sod + dir * 3600) ELSE c)
    [] kind = "s" ->
         LET c == ByLdn(x.ldn, (x.sod \div 60) * 60 + v)
         IN SameLdn(r, IF Wrong(c, x, dir, next) THEN ByLdn(x.ldn, c.sod + dir * 60) ELSE c)
    [] kind \in {"coh", "comi", "cos", "cod"} ->
         LET g == v * (CASE kind = "coh" -> 3600 [] kind = "comi" -> 60 [] kind = "cos" -> 1 [] kind = "cod" -> D)
             fl == (x.sod \div g) * g
             on == fl = x.sod
         IN SameLdn(r, IF dir > 0 THEN (IF on /\ ~next THEN ByLdn(x.ldn, x.sod) ELSE ByLdn(x.ldn, fl + g))
                       ELSE (IF on /\ next THEN ByLdn(x.ldn, fl - g) ELSE ByLdn(x.ldn, fl)))
    [] kind = "comon" ->
         LET gm == ((x.m - 1) \div v) * v + 1
             on == x.m = gm /\ x.d = 1 /\ x.sod = 0
             t == IF dir > 0 THEN (IF on /\ ~next THEN <<x.y, gm>> ELSE MonthAdd(x.y, gm, v))
                  ELSE (IF on /\ next THEN MonthAdd(x.y, gm, -v) ELSE <<x.y, gm>>)
         IN SameYmd(r, ByYmd(t[1], t[2], 1, 0))
    [] kind = "coy" ->
         LET gy == (x.y \div v) * v
             on == x.y = gy /\ x.m = 1 /\ x.d = 1 /\ x.sod = 0
             yy == IF dir > 0 THEN (IF on /\ ~next THEN gy ELSE gy + v) ELSE (IF on /\ next THEN gy - v ELSE gy)
         \* results beyond the supported range (year field of 12 bits) are not judged
         IN yy > 4095 \/ yy <= 1601 \/ SameYmd(r, ByYmd(yy, 1, 1, 0))

TInit == l = 1 /\ cur = [ldn |-> 0, y |-> 1582, m |-> 10, d |-> 15, wd |-> 5, sod |-> 0]
TReset == /\ l <= Len(Tr) /\ Ev.e = "Reset" /\ Consistent(Ev.x) /\ cur' = Ev.x /\ l' = l + 1
TRound == /\ l <= Len(Tr) /\ Ev.e = "Round"
          /\ Consistent(Ev.res)
          /\ RoundOK(cur, Ev.kind, Ev.v, Ev.dir, Ev.next, Ev.res)
          /\ cur' = Ev.res /\ l' = l + 1
TNext == TReset \/ TRound
TSpec == TInit /\ [][TNext]_<<l, cur>>
Accepted == TLCGet("stats").diameter - 1 = Len(Tr)
=============================================================================
