------------------------------ MODULE SeqTrace ------------------------------
(* Direction B for C15: recorded runs of the real dseq.
   Start(kind, first, inc, last, skip, cfl, wd0)  the instance as given on the command line (values re-encoded:
        chain day numbers, seconds relative to FIRST, seconds of day)
   Emit(v)     one output line: enabled only for the next element of the progression
   Stop(rc)    end of output: enabled only when no element remains (a zero increment must be refused: rc # 0, nothing printed)
   A run that had to be killed is logged as Timeout, which is never enabled. *)
EXTENDS Seq, Json, IOUtils, TLCExt
VARIABLE l
Tr == ndJsonDeserialize(IOEnv.TRACE)
Ev == Tr[l]
TInit == /\ l = 1 /\ kind = "lin" /\ first = 0 /\ inc = 1 /\ last = 0 /\ skip = {} /\ cfl = FALSE /\ wd0 = 1
         /\ k = 0 /\ done = TRUE /\ outs = <<>>
TStart == /\ l <= Len(Tr) /\ Ev.e = "Start" /\ done
          /\ kind' = Ev.kind /\ first' = Ev.first /\ inc' = Ev.inc /\ last' = Ev.last
          /\ skip' = { Ev.skip[i] : i \in 1..Len(Ev.skip) } /\ cfl' = Ev.cfl /\ wd0' = Ev.wd0
          /\ k' = 0 /\ done' = FALSE /\ outs' = <<>> /\ l' = l + 1
TEmit  == /\ l <= Len(Tr) /\ Ev.e = "Emit" /\ ~done
          /\ NextIdx(k) >= 0 /\ Ev.v = Elem(NextIdx(k))
          /\ k' = NextIdx(k) + 1 /\ outs' = <<>> /\ l' = l + 1
          /\ UNCHANGED done /\ UNCHANGED ivars
TStop  == /\ l <= Len(Tr) /\ Ev.e = "Stop" /\ ~done
          /\ NextIdx(k) = -1
          /\ (Dir = 0 => Ev.rc # 0)
          /\ done' = TRUE /\ l' = l + 1 /\ UNCHANGED <<k, outs>> /\ UNCHANGED ivars
TNext == TStart \/ TEmit \/ TStop
TSpec == TInit /\ [][TNext]_<<vars, l>>
Accepted == TLCGet("stats").diameter - 1 = Len(Tr)
=============================================================================
