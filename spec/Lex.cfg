SPECIFICATION Spec
CONSTANTS
  MAXLEN = 5
  EMITLEN = 4
  PINNED = FALSE
INVARIANTS TokSafe Progress Emit
CHECK_DEADLOCK FALSE
