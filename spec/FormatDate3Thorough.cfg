SPECIFICATION Spec
CONSTANTS
  TOKS = {"%Y","%y","%_y","%OY","%G","%g","%rY","%m","%0m","%-m","% m","%mth","%Om","%b","%B","%h","%_b","%d","%-d","% d","%dth","%Od","%j","%D","%-j","%jth","%a","%A","%_a","%u","%w","%c","%-c","%cth","%Oc","%V","%U","%W","%C","%-V","%db","%dB","%F"}
  SEPS = {"", "-", " ", "/", "T", "."}
  MAXTOK = 3
  KINDS = {"d"}
INVARIANTS GuessAgrees OneFamily Emit
CHECK_DEADLOCK FALSE
