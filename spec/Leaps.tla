-------------------------------- MODULE Leaps --------------------------------
(* (S) semantics of leap-second aware results (C14).  Instants are <<Unix day, second of day>> (TLC integers are
   32 bit); LEAPS is the frozen leap second table.  TAI-UTC at an instant is the value of the last table entry whose
   day has begun; it steps by exactly one at each listed instant, never decreases and keeps the last value for ever.
   A difference in real seconds is the UTC difference plus the leap seconds inserted in between; adding N real
   seconds walks the SI second line, on which the inserted second 23:59:60 of the day before an entry exists. *)
EXTENDS Integers, Sequences, FiniteSets, LeapTab, TLC
NL == Len(LEAPS)
\* number of table entries in force at day d (entries take effect at 00:00:00 of their day)
Idx(d) == Cardinality({k \in 1..NL : LEAPS[k][1] <= d})
TaiOffs(t) == IF Idx(t[1]) = 0 THEN LEAPS[1][2] ELSE LEAPS[Idx(t[1])][2]
GPSDAY == 3657                    \* 1980-01-06
GpsOffs(t) == TaiOffs(t) - 19
\* leap seconds inserted in (a, b]  (a, b instants, a <= b)
LeapsBetween(a, b) == TaiOffs(b) - TaiOffs(a)
\* UTC difference b - a in seconds, as <<days, seconds>> to stay within 32 bits: days * 86400 + secs
UtcDiffDays(a, b) == b[1] - a[1]
UtcDiffSecs(a, b) == b[2] - a[2]

\* the SI second line: position of a UTC reading <<d, s>> (s may be 86400 = 23:59:60 on days before an entry)
IsLeapDay(d) == \E k \in 2..NL : LEAPS[k][1] = d + 1
\* AddReal: <<d, s>> + n real seconds, |n| small: walk second by second
RECURSIVE AddReal(_, _)
AddReal(t, n) ==
  IF n = 0 THEN t
  ELSE IF n > 0
    THEN LET last == IF IsLeapDay(t[1]) THEN 86400 ELSE 86399
         IN AddReal(IF t[2] < last THEN <<t[1], t[2] + 1>> ELSE <<t[1] + 1, 0>>, n - 1)
    ELSE LET plast == IF IsLeapDay(t[1] - 1) THEN 86400 ELSE 86399
         IN AddReal(IF t[2] > 0 THEN <<t[1], t[2] - 1>> ELSE <<t[1] - 1, plast>>, n + 1)

\* ---- what TLC checks on the table itself (a one-state model) ----
VARIABLE dummy
Init == dummy = 0
Next == UNCHANGED dummy
Spec == Init /\ [][Next]_dummy
StepsByOne == \A k \in 1..(NL - 1) : LEAPS[k + 1][2] = LEAPS[k][2] + 1 /\ LEAPS[k + 1][1] > LEAPS[k][1]
Monotone == \A d1 \in 0..20000 : d1 % 37 = 0 => TaiOffs(<<d1, 0>>) <= TaiOffs(<<d1 + 37, 0>>)
StepExact == \A k \in 2..NL : /\ TaiOffs(<<LEAPS[k][1] - 1, 86399>>) = LEAPS[k][2] - 1
                              /\ TaiOffs(<<LEAPS[k][1], 0>>) = LEAPS[k][2]
KeepsLast == TaiOffs(<<776000, 0>>) = LEAPS[NL][2]
Anchors == /\ TaiOffs(<<17167, 0>>) = 37 /\ TaiOffs(<<17166, 86399>>) = 36     \* 2017-01-01
           /\ GpsOffs(<<17167, 0>>) = 18
           /\ TaiOffs(<<730, 0>>) = 10                                        \* 1972-01-01
\* walking across an inserted second and back; antisymmetry of the difference
AddRealLaws == \A k \in 2..NL : \A n \in 1..4 :
                 LET a == <<LEAPS[k][1] - 1, 86398>> IN
                 /\ AddReal(AddReal(a, n), -n) = a
                 /\ AddReal(a, 2) = <<LEAPS[k][1] - 1, 86400>>
                 /\ AddReal(a, 3) = <<LEAPS[k][1], 0>>
=============================================================================
