SPECIFICATION Spec
CONSTANT YLAST = 4095
INVARIANTS InvRD InvWd InvYd InvIso InvU InvW InvC InvBdm InvBcum InvHij InvHijIn Anchors
PROPERTIES SuccProps
CHECK_DEADLOCK FALSE
