SPECIFICATION Spec
CONSTANTS ND = 4
          NS = 3
          MAXLEN = 2
INVARIANTS Antisym Trans Total EqSame
CHECK_DEADLOCK FALSE
