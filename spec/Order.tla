-------------------------------- MODULE Order --------------------------------
(* (S) semantics of comparison and sorting (C08).
   A value is a position on the timeline <<day, second-of-day>>; Cmp is the sign of the
   difference of positions.  TLC checks, over a small scope, that this is a total order,
   that equality means the same instant, that the raw (count, weekday) order of two
   year-month-count-weekday values of one month is NOT the chronological one (so a word
   comparison is wrong there), and that Sorted/Perm characterise a sort. *)
EXTENDS Integers, Sequences, FiniteSets, TLC
CONSTANTS ND, NS, MAXLEN     \* days 0..ND-1, seconds 0..NS-1, sequences up to MAXLEN

Pos == (0..(ND - 1)) \X (0..(NS - 1))
Lin(p) == p[1] * NS + p[2]
Sgn(x) == IF x < 0 THEN -1 ELSE IF x > 0 THEN 1 ELSE 0
Cmp(a, b) == Sgn(Lin(a) - Lin(b))

\* what the tools answer
TestRc(flag, c) ==
  CASE flag = "cmp" -> (IF c = 0 THEN 0 ELSE IF c < 0 THEN 2 ELSE 1)
    [] flag = "eq" -> (IF c = 0 THEN 0 ELSE 1)
    [] flag = "ne" -> (IF c # 0 THEN 0 ELSE 1)
    [] flag = "lt" -> (IF c < 0 THEN 0 ELSE 1)
    [] flag = "le" -> (IF c <= 0 THEN 0 ELSE 1)
    [] flag = "gt" -> (IF c > 0 THEN 0 ELSE 1)
    [] flag = "ge" -> (IF c >= 0 THEN 0 ELSE 1)

\* multiset equality of two sequences over Pos-like records
Count(s, x) == Cardinality({i \in 1..Len(s) : s[i] = x})
IsPerm(s, t) == Len(s) = Len(t) /\ \A i \in 1..Len(s) : Count(s, s[i]) = Count(t, s[i])
Sorted(s, rev) == \A i \in 1..(Len(s) - 1) :
                     IF rev THEN Lin(s[i]) >= Lin(s[i + 1]) ELSE Lin(s[i]) <= Lin(s[i + 1])

\* ymcw within one month that starts on weekday W1 (Mon=1..Sun=7): day of month of the c-th weekday w
DomOf(W1, c, w) == 1 + ((w - W1 + 7) % 7) + 7 * (c - 1)

VARIABLES a, b, c3
vars == <<a, b, c3>>
Init == a \in Pos /\ b \in Pos /\ c3 \in Pos
Next == UNCHANGED vars
Spec == Init /\ [][Next]_vars

Antisym == Cmp(a, b) = -Cmp(b, a)
Trans   == (Cmp(a, b) <= 0 /\ Cmp(b, c3) <= 0) => Cmp(a, c3) <= 0
Total   == Cmp(a, b) \in {-1, 0, 1}
EqSame  == (Cmp(a, b) = 0) <=> (a = b)
\* raw word order of ymcw differs from chronological order for some month layout
YmcwRawWrong == \E W1 \in 1..7, c1 \in 1..4, c2 \in 1..4, w1 \in 1..7, w2 \in 1..7 :
                  /\ (c1 < c2 \/ (c1 = c2 /\ w1 < w2))
                  /\ DomOf(W1, c1, w1) > DomOf(W1, c2, w2)
\* sort characterisation: any sorted permutation of s has the same key sequence
SortUnique == \A s \in UNION {[1..k -> Pos] : k \in 0..MAXLEN} :
                \A t \in UNION {[1..k -> Pos] : k \in {Len(s)}} :
                  (IsPerm(s, t) /\ Sorted(t, FALSE)) =>
                     \A u \in UNION {[1..k -> Pos] : k \in {Len(s)}} : (IsPerm(s, u) /\ Sorted(u, FALSE)) => u = t
ASSUME YmcwRawWrong
=============================================================================
