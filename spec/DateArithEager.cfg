SPECIFICATION Spec
CONSTANTS
  YEARS = {1999, 2000}
  DAYS = {1, 28, 29, 30, 31}
  KM <- KM_e
  KYR <- KYR_e
  KD <- KD_e
  MAXOPS = 2
  EAGER = TRUE
INVARIANTS Valid Compose
CHECK_DEADLOCK FALSE
