SPECIFICATION Spec
CONSTANTS NMAX = 7
          VMAX = 9
          OLD = TRUE
INVARIANTS Refines
CHECK_DEADLOCK FALSE
