SPECIFICATION TSpec
CONSTANTS
  ALPHA = {}
  MAXLEN = 0
  HI = 118
POSTCONDITION Accepted
CHECK_DEADLOCK FALSE
