SPECIFICATION TSpec
CONSTANTS
  TOKS = {}
  SEPS = {}
  MAXTOK = 0
  KINDS = {"d"}
POSTCONDITION Accepted
CHECK_DEADLOCK FALSE
