SPECIFICATION Spec
CONSTANTS D = 6
          KMAX = 60
          NOSPLIT = TRUE
INVARIANTS Refines
CHECK_DEADLOCK FALSE
