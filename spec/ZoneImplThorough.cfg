SPECIFICATION Spec
CONSTANTS TNEG = 2
          TMAX = 5
          NTRMAX = 4
          NQ = 3
          NTY = 3
          BUGGY = FALSE
          TRNOMOD = 256
INVARIANTS Refines CacheInv Emit
PROPERTIES Progress
CHECK_DEADLOCK FALSE
