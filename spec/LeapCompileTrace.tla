------------------------- MODULE LeapCompileTrace -------------------------
(* Direction A/B for the leap-list compiler: one event = one compilation by the real lib/ltrcc (`ltrcc -C file`) or the
   arrays linked into libdut.a, decoded field by field through the library's own types (drivers/drv_leaptab.c).
     Table(lines, cols)   lines = the list as LeapCompile's line records (comment / blank / data <<NTP day, difference>>),
                          cols  = the six observed columns: corr, d, s as <<"v", n>> | <<"lo", 0>> | <<"hi", 0>>,
                                  ymd as <<"v", y, m, d>>, ymcw as <<"v", y, m, c, w>> (w: 1 = Monday .. 7 = Sunday),
                                  hms as <<"t", h, m, s>>, sentinels as <<"z", 0>> (all-zero word) and <<"hi", 0>>;
                                  ymdw / ymcww: <<packed word in the table, packed word the library's reader forms for that day>>.
   The event is accepted iff every column is the column LeapCompile!SColumns demands: same length, same sentinels,
   and entry i of every column denotes the last second before row i's instant -- ymd and ymcw must *denote* that day
   (Greg!RD, Greg!NthWdOfMonth), not merely match a packed word.                                                  *)
EXTENDS Integers, Sequences, Json, IOUtils, TLCExt, TLC, Greg

\* (S) of LeapCompile, instantiated without its constants (only SColumns is used)
LC == INSTANCE LeapCompile WITH MAXLINES <- 0, GAPS <- {}, STEPS <- {}, ND0 <- 0, Emit <- FALSE,
                                L <- <<>>, pass <- 7, ln <- 0, cor <- <<>>, out <- <<>>

VARIABLES l
Tr == ndJsonDeserialize(IOEnv.TRACE)
Ev == Tr[l]

DayOfYmd(e) == IF e[1] = "v" /\ e[3] \in 1..12 /\ e[4] \in 1..MLen(e[2], e[3])
               THEN RD(e[2], e[3], e[4]) - RD1601 + 1 ELSE -1
DayOfYmcw(e) == IF e[1] = "v" /\ e[3] \in 1..12 /\ e[5] \in 1..7 /\ e[4] \in 1..WdCountInMonth(e[2], e[3], e[5])
                THEN RD(e[2], e[3], NthWdOfMonth(e[2], e[3], e[4], e[5])) - RD1601 + 1 ELSE -1

ColumnsOk(lines, cols) ==
  LET c == LC!SColumns(lines)
      n == Len(c.corr)
  IN /\ Len(cols.corr) = n /\ Len(cols.ymd) = n /\ Len(cols.ymcw) = n /\ Len(cols.d) = n /\ Len(cols.s) = n /\ Len(cols.hms) = n
     /\ cols.corr = c.corr
     /\ cols.d = c.day
     /\ cols.s = c.sec
     /\ \A i \in 1..n :
          /\ cols.hms[i] = (IF c.hms[i][1] = "t" THEN <<"t">> \o c.hms[i][2] ELSE c.hms[i])
          /\ IF i = 1 THEN cols.ymd[i] = <<"z", 0>> /\ cols.ymcw[i] = <<"z", 0>>
             ELSE IF i = n THEN cols.ymd[i] = <<"hi", 0>> /\ cols.ymcw[i] = <<"hi", 0>>
             ELSE /\ DayOfYmd(cols.ymd[i]) = c.day[i][2] /\ DayOfYmcw(cols.ymcw[i]) = c.day[i][2]
                  \* <<word in the table, word the library forms when it reads that day>>: consumers compare whole words
                  /\ cols.ymdw[i][1] = cols.ymdw[i][2] /\ cols.ymcww[i][1] = cols.ymcww[i][2]
     /\ LC!WellFormed(lines)

TInit == l = 1
TTable == /\ l <= Len(Tr) /\ Ev.e = "Table" /\ ColumnsOk(Ev.lines, Ev.cols) /\ l' = l + 1
\* the arrays linked into the library are the compiler's output for the shipped list
TSame == /\ l <= Len(Tr) /\ Ev.e = "Same" /\ Ev.linked = Ev.compiled /\ l' = l + 1
TNext == TTable \/ TSame
TSpec == TInit /\ [][TNext]_l
Accepted == TLCGet("stats").diameter - 1 = Len(Tr)
=============================================================================
