SPECIFICATION Spec
CONSTANTS NATOM = 3
          MAXLEAF = 3
          OLD = FALSE
INVARIANTS Refines PushedDown Emit
CHECK_DEADLOCK FALSE
