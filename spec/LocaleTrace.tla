----------------------------- MODULE LocaleTrace -----------------------------
(* Direction B for C20 (locale part).  Names(l) are the month/weekday names of the locales used by the execution, read
   from the file named by NAMES (data/locale re-read by the orchestrator); "C" are the built-in English names.
     Reset(names)                  fresh process
     SetI(l) / SetF(l) / ResetI / ResetF   the setter that was called
     Tables(p, f)                  first entries of the four parse tables and of the four print tables read from the library
     Conv(tool, min, inm, m, w, outm, outw, outam, outaw, rc)  a tool run: it was fed month min written as inm and printed the
                                   four names of month m / weekday w *)
EXTENDS Locale, Json, IOUtils, TLCExt
VARIABLES l
Tr == ndJsonDeserialize(IOEnv.TRACE)
names == JsonDeserialize(IOEnv.NAMES)     \* locale -> kind -> 7|12 names, read once from data/locale by the orchestrator
Ev == Tr[l]
KindSeq == <<"lw", "aw", "lm", "am">>
TInit == l = 1 /\ Init
TReset == /\ l <= Len(Tr) /\ Ev.e = "Reset" /\ l' = l + 1
          /\ ptab' = [k \in Kinds |-> "C"] /\ ftab' = [k \in Kinds |-> "C"] /\ iloc' = "C" /\ floc' = "C" /\ nops' = 0
Step == l' = l + 1
TSetI == l <= Len(Tr) /\ Ev.e = "SetI" /\ iloc' = Ev.loc /\ ptab' = [k \in Kinds |-> Ev.loc] /\ UNCHANGED <<ftab, floc, nops>> /\ Step
TSetF == l <= Len(Tr) /\ Ev.e = "SetF" /\ floc' = Ev.loc /\ ftab' = [k \in Kinds |-> Ev.loc] /\ UNCHANGED <<ptab, iloc, nops>> /\ Step
TResetI == l <= Len(Tr) /\ Ev.e = "ResetI" /\ iloc' = "C" /\ ptab' = [k \in Kinds |-> "C"] /\ UNCHANGED <<ftab, floc, nops>> /\ Step
TResetF == l <= Len(Tr) /\ Ev.e = "ResetF" /\ floc' = "C" /\ ftab' = [k \in Kinds |-> "C"] /\ UNCHANGED <<ptab, iloc, nops>> /\ Step
\* names[loc][kind] is the first entry (Monday / January) of that table in that locale
TTables == /\ l <= Len(Tr) /\ Ev.e = "Tables"
           /\ \A i \in 1..4 : Ev.p[i] = names[ptab[KindSeq[i]]][KindSeq[i]][1]
           /\ \A i \in 1..4 : Ev.f[i] = names[ftab[KindSeq[i]]][KindSeq[i]][1]
           /\ UNCHANGED vars /\ Step
\* a tool run: the options given appear before it as SetI / SetF events in command-line order; the month name fed to the
\* tool is the parse table's name for month min, and the four printed names are the print tables' names for month m, weekday w
TConv == /\ l <= Len(Tr) /\ Ev.e = "Conv" /\ Ev.rc = 0
         /\ Ev.inm = names[ptab["lm"]]["lm"][Ev.min]
         /\ Ev.outm = names[ftab["lm"]]["lm"][Ev.m] /\ Ev.outw = names[ftab["lw"]]["lw"][Ev.w]
         /\ Ev.outam = names[ftab["am"]]["am"][Ev.m] /\ Ev.outaw = names[ftab["aw"]]["aw"][Ev.w]
         /\ UNCHANGED vars /\ Step
\* a dgrep run: the expression operand and the lines are written with the parse table's month names; sel = which lines came out
TSel == /\ l <= Len(Tr) /\ Ev.e = "Sel" /\ Ev.rc = 0
        /\ Ev.inm = names[ptab["lm"]]["lm"][Ev.min]
        /\ Ev.sel = Ev.want
        /\ UNCHANGED vars /\ Step
\* one name of one parse table found inside a line by the scanner (dconv -S --from-locale): the text fed in is the table's own entry idx of
\* kind tab, and the value must come out (got) as the date it was written for -- for EVERY entry, the first one of a line included
TName == /\ l <= Len(Tr) /\ Ev.e = "Name" /\ Ev.rc = 0
         /\ Ev.inm = names[ptab[Ev.tab]][Ev.tab][Ev.idx]
         /\ Ev.got = Ev.want
         /\ UNCHANGED vars /\ Step
TNext == TReset \/ TSetI \/ TSetF \/ TResetI \/ TResetF \/ TTables \/ TConv \/ TSel \/ TName
TSpec == TInit /\ [][TNext]_<<vars, l>>
Accepted == TLCGet("stats").diameter - 1 = Len(Tr)
=============================================================================
