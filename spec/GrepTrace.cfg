SPECIFICATION TSpec
CONSTANTS NATOM = 3
          MAXLEAF = 3
          OLD = FALSE
POSTCONDITION Accepted
CHECK_DEADLOCK FALSE
