------------------------------ MODULE ZoneImpl ------------------------------
(* (I) the zone lookup mechanism of lib/tzraw.c: __offs (range cache) / __find_zrng / __find_trno (bisection),
   one action per loop iteration so that non-termination would be a Progress violation.
   TLC checks for EVERY table of up to NTRMAX transitions over the instants TMIN..TMAX (straddling 0, because the
   pristine cache is {prev=0,next=0}) and EVERY history of up to NQ queries that
      Refines   the answer of every query equals ZoneSem!OffsAt, whatever was asked before
      Progress  every bisection step shrinks the window
      CacheInv  the cached range is a true range of the table (offset constant on it)
   The lookup is transcribed as repaired (fix: commit "zone lookup"); BUGGY = TRUE selects the pinned
   mechanism (first miss searched from cache.trno + 1, the strict/non-strict window, 8-bit index) which TLC refutes --
   kept as the negative control of this module.
   Every (table, history) is emitted and replayed on the real code through a synthetic TZif file. *)
EXTENDS Integers, Sequences, FiniteSets, TLC, Json
CONSTANTS TNEG, TMAX, NTRMAX, NQ, NTY, BUGGY, TRNOMOD
TMIN == -TNEG

SMIN == TMIN - 100
SMAX == TMAX + 100
VARIABLES trs, typ, ofs,               \* the table (ZoneSem)
          cprev, cnext, coffs, ctrno,  \* the cache
          pc, q, lo, hi, hist
zvars == <<trs, typ, ofs>>
vars == <<trs, typ, ofs, cprev, cnext, coffs, ctrno, pc, q, lo, hi, hist>>
Sem == INSTANCE ZoneSem

ntr == Len(trs)
Trans(k) == trs[k + 1]                  \* 0-based as in C
TrOffs(k) == IF ntr = 0 THEN ofs[1] ELSE ofs[typ[(IF k >= ntr THEN ntr - 1 ELSE k) + 1] + 1]

StrictInc(s) == \A i \in 1..(Len(s) - 1) : s[i] < s[i + 1]
Tables == UNION { { s \in [1..k -> TMIN..TMAX] : StrictInc(s) } : k \in 0..NTRMAX }
\* the loader merges transitions to the same type: model tables are already merged
TypSeqs(k) == { o \in [1..k -> 0..(NTY - 1)] : \A i \in 1..(k - 1) : o[i] # o[i + 1] }

Init == /\ trs \in Tables
        /\ typ \in TypSeqs(Len(trs))
        /\ ofs = [i \in 1..NTY |-> 10 * i]
        /\ cprev = 0 /\ cnext = 0 /\ coffs = 0 /\ ctrno = 0
        /\ pc = "idle" /\ q = 0 /\ lo = 0 /\ hi = 0 /\ hist = <<>>

\* __find_zrng after __find_trno returned trno
Finish(trno) ==
  /\ IF trno < 0
       THEN /\ ctrno' = 0 /\ cprev' = SMIN
            /\ cnext' = (IF ntr > 0 THEN Trans(0) ELSE SMAX)
            /\ coffs' = TrOffs(0)
       ELSE /\ ctrno' = trno % TRNOMOD /\ cprev' = Trans(trno)
            /\ cnext' = (IF trno + 1 < ntr THEN Trans(trno + 1) ELSE SMAX)
            /\ coffs' = TrOffs(trno % TRNOMOD)
  /\ pc' = "idle" /\ hist' = Append(hist, <<q, coffs'>>)
  /\ UNCHANGED <<trs, typ, ofs, q, lo, hi>>

Query(t) ==
  /\ pc = "idle" /\ Len(hist) < NQ /\ q' = t
  /\ IF cprev <= t /\ t < cnext
       THEN /\ hist' = Append(hist, <<t, coffs>>) /\ pc' = "idle"
            /\ UNCHANGED <<lo, hi, cprev, cnext, coffs, ctrno, trs, typ, ofs>>
       ELSE /\ pc' = "enter"
            /\ IF BUGGY
                 THEN IF t >= cnext THEN lo' = ctrno + 1 /\ hi' = ntr ELSE lo' = 0 /\ hi' = ctrno
                 ELSE lo' = 0 /\ hi' = ntr
            /\ UNCHANGED <<hist, cprev, cnext, coffs, ctrno, trs, typ, ofs>>

\* head of __find_trno
Enter ==
  /\ pc = "enter"
  /\ IF ntr = 0 THEN Finish(-1)
     ELSE IF hi <= lo \/ (lo < ntr /\ q < Trans(lo)) THEN Finish(lo - 1)
     ELSE IF lo >= ntr THEN Finish(lo - 1)
     ELSE pc' = "bisect" /\ UNCHANGED <<trs, typ, ofs, cprev, cnext, coffs, ctrno, q, lo, hi, hist>>

Bisect ==
  /\ pc = "bisect"
  /\ IF hi - lo > 1
       THEN LET this == lo + (hi - lo) \div 2 IN
            /\ IF q >= Trans(this) THEN lo' = this /\ hi' = hi ELSE hi' = this /\ lo' = lo
            /\ UNCHANGED <<trs, typ, ofs, cprev, cnext, coffs, ctrno, pc, q, hist>>
       ELSE Finish(lo)

Next == (\E t \in TMIN..TMAX : Query(t)) \/ Enter \/ Bisect
Spec == Init /\ [][Next]_vars

Refines == \A i \in 1..Len(hist) :
             Sem!OffsAt(hist[i][1]) # Sem!Undef => hist[i][2] = Sem!OffsAt(hist[i][1])
Progress == [][ (pc = "bisect" /\ pc' = "bisect") => (hi' - lo' < hi - lo) ]_vars
CacheInv == (pc = "idle" /\ cprev < cnext /\ ntr > 0) =>
              \A t \in TMIN..TMAX : (cprev <= t /\ t < cnext /\ Sem!OffsAt(t) # Sem!Undef) => Sem!OffsAt(t) = coffs
Emit == (pc = "idle" /\ Len(hist) = NQ) =>
          PrintT(ToJson([tr |-> trs, ty |-> typ, qs |-> [i \in 1..Len(hist) |-> hist[i][1]], ans |-> [i \in 1..Len(hist) |-> hist[i][2]]]))
=============================================================================
