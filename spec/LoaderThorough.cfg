SPECIFICATION Spec
CONSTANTS MAXCNT = 1
          CHECKED = TRUE
          FULL = TRUE
INVARIANTS Safe Exact Emit
CHECK_DEADLOCK FALSE
