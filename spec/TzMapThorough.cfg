SPECIFICATION Spec
CONSTANTS NREC = 5
          MAXKW = 3
INVARIANTS Refines LoAligned Emit
PROPERTIES Progress
CHECK_DEADLOCK FALSE
