SPECIFICATION Spec
CONSTANTS
  MAXLEN = 6
  EMITLEN = 5
  PINNED = FALSE
INVARIANTS TokSafe Progress Emit
CHECK_DEADLOCK FALSE
