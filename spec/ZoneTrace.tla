------------------------------ MODULE ZoneTrace ------------------------------
(* Direction B for C12/C13: query histories recorded from the real zone code (drv_zone, dconv --zone) are accepted
   only if every answer is what ZoneSem defines for the table of that zone file (parsed independently).
   64-bit instants are rank-compressed per execution (order isomorphism); offsets are plain integers.
     Reset(trs, typ, ofs)          a fresh handle on a zone file
     Local(t, off)                 zif_local_time(t) - t            must be OffsAt(t)        (t >= first transition)
     Utc(u, off, cands)            u = zif_utc_time(l), off = l - u; cands = [[o, rank(l - o)]] for every distinct offset o:
                                   accepted iff OffsAt(u) = off, or no instant has l as its local time at all
     Rng(t, prev, next, off)       zif_find_zrng(t): the adjacent entries of the merged table and the offset in force
     Trans(dir, t, tr, trm1, offb, offa)   dzone --next / --prev at t printed transition instant tr (tool text re-encoded; -1 / -2 = never)
                                   with the offsets before and after it: tr must be the adjacent entry of the merged table on that side,
                                   offb the offset in force just before tr (at trm1 = tr - 1 s) and offa the one from tr on
   A handle is queried many times without Reset: any dependence on earlier queries (C13) shows as a rejection. *)
EXTENDS ZoneSem, Json, IOUtils, TLCExt, TLC
VARIABLE l
Tr == ndJsonDeserialize(IOEnv.TRACE)
Ev == Tr[l]

TInit == l = 1 /\ trs = <<>> /\ typ = <<>> /\ ofs = <<0>>
TReset == /\ l <= Len(Tr) /\ Ev.e = "Reset"
          /\ trs' = Ev.trs /\ typ' = Ev.typ /\ ofs' = Ev.ofs
          /\ l' = l + 1
TLocal == /\ l <= Len(Tr) /\ Ev.e = "Local"
          /\ WellFormed
          /\ (OffsAt(Ev.t) = Undef \/ Ev.off = OffsAt(Ev.t))
          /\ l' = l + 1 /\ UNCHANGED zvars
HasPreimage(c) == \E i \in 1..Len(c) : OffsAt(c[i][2]) = c[i][1]
TUtc == /\ l <= Len(Tr) /\ Ev.e = "Utc"
        /\ (OffsAt(Ev.u) = Undef \/ Ev.off = OffsAt(Ev.u) \/ ~HasPreimage(Ev.cands))
        /\ l' = l + 1 /\ UNCHANGED zvars
TRng == /\ l <= Len(Tr) /\ Ev.e = "Rng"
        /\ (OffsAt(Ev.t) = Undef
            \/ /\ Ev.prev = RngOf(Ev.t)[1]
               /\ Ev.next = RngOf(Ev.t)[2]
               /\ Ev.off = OffsAt(Ev.t))
        /\ l' = l + 1 /\ UNCHANGED zvars
TTrans == /\ l <= Len(Tr) /\ Ev.e = "Trans"
          /\ (OffsAt(Ev.t) = Undef
              \/ LET want == IF Ev.dir = "next" THEN RngOf(Ev.t)[2] ELSE RngOf(Ev.t)[1] IN
                 /\ Ev.tr = want
                 /\ (want >= 1 => /\ Ev.offa = OffsAt(Ev.tr)
                                  /\ (OffsAt(Ev.trm1) = Undef \/ (~Ev.nob /\ Ev.offb = OffsAt(Ev.trm1)))))
          /\ l' = l + 1 /\ UNCHANGED zvars
TNext == TReset \/ TLocal \/ TUtc \/ TRng \/ TTrans
TSpec == TInit /\ [][TNext]_<<zvars, l>>
Accepted == TLCGet("stats").diameter - 1 = Len(Tr)
=============================================================================
