----------------------------- MODULE TzMapTrace -----------------------------
(* Direction B for the zone map part of C19: Reset(keys, zones) installs the map source (sorted keys, zone index per
   key, 0-based zone names are compared as strings); Find(key, r) is one tzm_find on the compiled map: r must be the
   zone of key, or "" (NULL) when the key is not in the source; Tool(key, r, rows) is one MAP:KEY specification among
   several given to one dzone process: its row must be the row of the mapped zone. *)
EXTENDS Integers, Sequences, Json, IOUtils, TLCExt, TLC
VARIABLES l, keys, zones
Tr == ndJsonDeserialize(IOEnv.TRACE)
Ev == Tr[l]
TInit == l = 1 /\ keys = <<>> /\ zones = <<>>
TReset == /\ l <= Len(Tr) /\ Ev.e = "Reset" /\ keys' = Ev.keys /\ zones' = Ev.zones /\ l' = l + 1
Lookup(k) == IF \E i \in 1..Len(keys) : keys[i] = k
             THEN zones[CHOOSE i \in 1..Len(keys) : keys[i] = k] ELSE ""
TFind == /\ l <= Len(Tr) /\ Ev.e = "Find" /\ Ev.r = Lookup(Ev.key) /\ l' = l + 1 /\ UNCHANGED <<keys, zones>>
\* the same lookup through a tool: the row printed for MAP:KEY is the row the tool prints for the mapped zone itself (rows: zone -> row)
TTool == /\ l <= Len(Tr) /\ Ev.e = "Tool" /\ Lookup(Ev.key) # "" /\ Ev.r = Ev.rows[Lookup(Ev.key)] /\ l' = l + 1 /\ UNCHANGED <<keys, zones>>
TNext == TReset \/ TFind \/ TTool
TSpec == TInit /\ [][TNext]_<<l, keys, zones>>
Accepted == TLCGet("stats").diameter - 1 = Len(Tr)
=============================================================================
