------------------------------ MODULE Unescape ------------------------------
(* The backslash-escape processor behind -e / --backslash-escapes (src/dt-io.c: dt_io_unescape), which rewrites a format or
   literal IN PLACE before any formatter sees it.
   (S)  Unesc(s): the meaning -- a backslash followed by a letter a..v stands for the control character of the tools' table
        ("\a\bcd\e\fghijklm\nopq\rs\tu\v": letters without a control character stand for themselves), a backslash followed by
        any other byte stands for that byte, a trailing backslash stays, everything else is copied.
   (I)  the function as written: strchr for the first backslash, then a do/while loop with a read pointer p and a write
        pointer q over the same memory, a break for the trailing backslash, and the final terminator store.
   Checked for every string over ALPHA of length <= MAXLEN (characters are byte codes, memory is the string plus its NUL):
        Safe      every read and write is inside the string's own memory (index <= Len+1) and the write pointer never passes
                  the read pointer (so no byte is read after it was overwritten)
        NoNul     no NUL is stored in front of the final terminator (the table is indexed inside its 22 entries)
        Meaning   at the end the C string in memory is Unesc(input); it is never longer than the input
        Finishes  the loop terminates (p strictly increases)
   HI is the last letter the table is consulted for ('v' = 118 in the code); UnescapeOff.cfg sets 119 -- the off-by-one that
   reads the table's own terminator -- and must violate NoNul. *)
EXTENDS Naturals, Sequences, TLC
CONSTANTS ALPHA, MAXLEN, HI
BS == 92
EscMap == <<7, 8, 99, 100, 27, 12, 103, 104, 105, 106, 107, 108, 109, 10, 111, 112, 113, 13, 115, 9, 117, 11, 0>>
Esc(c) == IF c >= 97 /\ c <= HI THEN EscMap[c - 96] ELSE c

RECURSIVE UnescFrom(_, _)
UnescFrom(s, i) ==
  IF i > Len(s) THEN <<>>
  ELSE IF s[i] # BS THEN <<s[i]>> \o UnescFrom(s, i + 1)
  ELSE IF i = Len(s) THEN <<BS>>
  ELSE <<(IF s[i + 1] >= 97 /\ s[i + 1] <= 118 THEN EscMap[s[i + 1] - 96] ELSE s[i + 1])>> \o UnescFrom(s, i + 2)
HasBS(s) == \E i \in 1..Len(s) : s[i] = BS
Unesc(s) == IF HasBS(s) THEN UnescFrom(s, 1) ELSE s

VARIABLES in, mem, p, q, pc, maxrd
vars == <<in, mem, p, q, pc, maxrd>>
Strings == UNION {[1..n -> ALPHA] : n \in 0..MAXLEN}
FirstBS(s) == CHOOSE i \in 1..Len(s) : s[i] = BS /\ \A j \in 1..(i - 1) : s[j] # BS
CStr(m) == LET z == CHOOSE i \in 1..Len(m) : m[i] = 0 /\ \A j \in 1..(i - 1) : m[j] # 0 IN SubSeq(m, 1, z - 1)

Init == /\ in \in Strings /\ mem = in \o <<0>> /\ p = 0 /\ q = 0 /\ pc = "find" /\ maxrd = 0
Find == /\ pc = "find"
        /\ IF HasBS(in) THEN p' = FirstBS(in) /\ q' = FirstBS(in) /\ pc' = "loop" /\ maxrd' = FirstBS(in)
           ELSE pc' = "done" /\ maxrd' = Len(mem) /\ UNCHANGED <<p, q>>
        /\ UNCHANGED <<in, mem>>
(* one pass through the do-while body *)
Body == /\ pc = "loop"
        /\ IF mem[p] # BS
           THEN /\ mem' = [mem EXCEPT ![q] = mem[p]] /\ p' = p + 1 /\ q' = q + 1
                /\ maxrd' = p + 1 /\ pc' = IF mem'[p + 1] = 0 THEN "term" ELSE "loop"
           ELSE IF mem[p + 1] = 0
           THEN /\ mem' = [mem EXCEPT ![q] = BS] /\ p' = p + 1 /\ q' = q + 1 /\ maxrd' = p + 1 /\ pc' = "term"
           ELSE /\ mem' = [mem EXCEPT ![q] = Esc(mem[p + 1])] /\ p' = p + 2 /\ q' = q + 1
                /\ maxrd' = p + 2 /\ pc' = IF mem'[p + 2] = 0 THEN "term" ELSE "loop"
        /\ UNCHANGED in
Term == pc = "term" /\ mem' = [mem EXCEPT ![q] = 0] /\ pc' = "done" /\ UNCHANGED <<in, p, q, maxrd>>
Next == Find \/ Body \/ Term
Spec == Init /\ [][Next]_vars /\ WF_vars(Next)

Safe == /\ maxrd <= Len(in) + 1
        /\ pc \in {"loop", "term"} => (q <= p /\ p <= Len(in) + 1 /\ q >= 1)
NoNul == pc \in {"loop", "term"} => \A i \in 1..(q - 1) : mem[i] # 0
Meaning == pc = "done" => (CStr(mem) = Unesc(in) /\ Len(CStr(mem)) <= Len(in))
Finishes == <>(pc = "done")
=============================================================================
