SPECIFICATION Spec
CONSTANTS
  TOKS = {"%Y","%y","%m","%-m","%b","%B","%Om","%mth","%c","%-c","%cth","%a","%A","%_a","%u","%w","%d","%dth","%j","%db"}
  SEPS = {"", "-", " "}
  MAXTOK = 4
  KINDS = {"d"}
INVARIANTS GuessAgrees OneFamily Emit
CHECK_DEADLOCK FALSE
