"""C18 -- stream filters are transparent and independent of input chunking.
Spec: Chunk.tla -- (S) LinesOf(stream); (I) a transcription of prchunk_fill and the consumer loop with read() returning
any 1..K bytes: TLC explores every stream of <= 7|8 bytes over {x, \\n, \\r} under every read schedule.
A (model scale): every terminal TLC state (stream, schedule) is replayed on the REAL reader compiled with the guarded
hook at W=6, L=3, K=2; the delivered lines are compared with LinesOf (verdict at (S) level; differences between the
real reader and the transcription are reported as model drift only).
B (real scale): the unmodified dconv -S / dadd -S / dround -S / dgrep under an LD_PRELOAD shim that cuts stdin into
scheduled read() sizes: streams around 16383/16384/16385 lines, long lines, CRLF, missing final newline, empty lines,
totals around the 16 MiB window; StreamTrace.tla compares the output with the per-line results of single runs and all
schedules with each other."""
import os, hashlib
from concurrent.futures import ThreadPoolExecutor
from vlib import core
from checks import calcommon as cc

PID = "C18"
W, L, K = 6, 3, 2


def classify(s, want, got, ovf):
    if ovf:
        return "chunk-window-overflow (more bytes than the window before the line limit is reached)"
    if len(got) == len(want) - 1 and got == want[:-1] and not s.endswith("n"):
        nterm = s.count("n")
        if nterm and nterm % L == 0:
            return "chunk: unterminated last line lost after a fill that ended on the line limit"
        return "chunk: unterminated last line lost"
    if len(got) < len(want) and not s.endswith("n") and got == want[:len(got)] and (len(got) % L == 0):
        return "chunk: unterminated last line lost after a fill that ended on the line limit"
    if len(got) < len(want):
        return "chunk: lines lost"
    if len(got) > len(want):
        return "chunk: lines duplicated or split"
    return "chunk: line content differs"


def model_scale(rep, b, tier):
    r = core.tlc_must_pass("Chunk", "Chunk.cfg" if tier == "quick" else "ChunkThorough.cfg", heap="16g", timeout=2400)
    rep.add_tlc("Chunk (every stream x every read schedule; terminal states emitted)", r)
    cases = {}
    for x in r.prints:
        j = core.parse_print(x)
        if j and "sc" in j:
            cases[("".join(j["s"]), tuple(j["sc"]))] = j
    r.prints = []
    drv = b.driver("drv_chunk", defs="-DVERIF_PRCH_NLINES=%d -DVERIF_PRCH_LLEN=%d -DVERIF_PRCH_CHUNK=%d" % (L, W // L, K))
    keys = sorted(cases)
    inp = "".join("%s %s\n" % (s or "-", ",".join(map(str, sc)) or "0") for s, sc in keys)
    p = core.run([drv], inp=inp, timeout=1200)
    outs = p.stdout.splitlines()
    if len(outs) != len(keys):
        raise core.MachineryError("drv_chunk answered %d of %d cases: %s" % (len(outs), len(keys), p.stderr[-300:]))
    import json
    drift = 0
    n = 0
    for (s, sc), o in zip(keys, outs):
        j = cases[(s, sc)]
        g = json.loads(o)
        want = ["".join(x) for x in j["want"]]
        model_out = ["".join(x) for x in j["out"]]
        n += 1
        if g["ovf"] != j["ovf"] or (not g["ovf"] and g["out"] != model_out):
            drift += 1
        if g["ovf"] or g["out"] != want or g.get("loop"):
            rep.disagree(classify(s, want, g["out"], g["ovf"]), {"stream": s, "schedule": list(sc), "delivered": g["out"], "want": want, "scale": "W=6 L=3 K=2"})
    rep.count(evaluations=n, distinct=n, traces=n)
    rep.notes["model_scale_cases"] = n
    rep.notes["model_drift_cases"] = drift
    if keys:
        k = keys[len(keys) // 2]
        rep.sample({"model_scale_case": {"stream": k[0], "schedule": list(k[1])}})
    core.log("model scale: %d (stream, schedule) cases replayed, drift=%d" % (n, drift))


def gen_streams(rng, quick):
    """(name, list of line contents, terminator style, final newline?)"""
    date_lines = ["2012-03-%02d filler text %d" % (1 + i % 28, i) for i in range(40)]
    plain = ["no date here %d" % i for i in range(7)] + ["", "x"]
    out = []

    def mk(n, longline=None):
        ls = []
        for i in range(n):
            c = rng.choice(date_lines) if i % 3 else rng.choice(plain)
            ls.append(c)
        if longline:
            pos, ln = longline
            ls[pos] = "2012-03-04 " + "y" * ln
        return ls
    out.append(("small", mk(50), "\n", True))
    out.append(("small-crlf", mk(50), "\r\n", True))
    out.append(("small-nofinal", mk(51), "\n", False))
    out.append(("one-unterminated", ["2012-03-04 only line"], "\n", False))
    out.append(("empty-lines", ["", "", "2012-03-04", "", ""], "\n", True))
    for n in (16383, 16384, 16385, 16390) + (() if quick else (32768, 32769, 49155)):
        out.append(("lines-%d" % n, mk(n), "\n", True))
    out.append(("lines-16384-nofinal", mk(16385), "\n", False))
    for ln in (1023, 1024, 4095, 4096, 4097) + (() if quick else (65536,)):
        out.append(("longline-%d" % ln, mk(200, (100, ln)), "\n", True))
    if not quick:
        out.append(("crlf-16385", mk(16385), "\r\n", True))
    # date-times in no particular order, years apart, for the runs with a zone option: the replacement of a line must not depend on the
    # lines before it (the zone lookup keeps a cache of the last range)
    import datetime
    zl = []
    for i in range(90):
        t = datetime.datetime(1996, 1, 1) + datetime.timedelta(days=rng.randrange(0, 9500), seconds=rng.choice([0, 3600, 43200, 86399]))
        zl.append("ev%02d %s tail" % (i % 7, t.strftime("%Y-%m-%dT%H:%M:%S")))
    zl += zl[10:30]
    out.append(("zoned-shuffled", zl, "\n", True))
    out.append(("zoned-descending", sorted(zl, key=lambda x: x.split()[1], reverse=True), "\n", True))
    # consecutive stamps exactly one zone offset apart (whole hours up and down, 1..13 h, winter and summer), two of them on one line: what
    # was printed for one value must not be taken for the next
    hl = []
    for base in (datetime.datetime(2021, 1, 15, 8, 0, 0), datetime.datetime(2021, 7, 15, 8, 0, 0)):
        for step in (1, 2, -1, -2, -5, -4, 10, 11, 9, 13, -8, 5, 0):
            t = base
            for k in range(6):
                hl.append("ev %s tail" % t.strftime("%Y-%m-%dT%H:%M:%S"))
                t += datetime.timedelta(hours=step)
            hl.append("two %s and %s" % (base.strftime("%Y-%m-%dT%H:%M:%S"), (base + datetime.timedelta(hours=step)).strftime("%Y-%m-%dT%H:%M:%S")))
    out.append(("zoned-hourly", hl, "\n", True))
    # input formats without a literal character (the scanner counts digits instead of searching for a needle): many value-carrying lines in a
    # row, with other digit runs on the lines
    dl = []
    for i in range(700):
        v = "2012%02d%02d" % (1 + i % 12, 1 + (i * 7) % 28)
        dl.append(rng.choice(["rec ts %s x", "%s", "n=%d ts %%s" % (i % 100), "ts %%s id %d" % i, "a %s b", "(%s)"]) % v if i % 11 else "no value on line %d" % i)
    out.append(("digits-700", dl, "\n", True))
    # around the 16 MiB window: 9000 lines of 2100 bytes is more than the window before the line limit
    out.append(("window-17MiB", ["2012-03-04 " + "z" * 2089 for _ in range(8500)], "\n", True))
    return out


def real_scale(rep, b, tier, rng):
    shim = core.shim()
    tools = [("dconv", ["-S", "-f", "%G-W%V-%u"]), ("dadd", ["-S", "+1mo"]), ("dround", ["-S", "Mon"])]
    scheds = ["1", "4095", "4096", "4097", "7,13,4099", None] if tier != "quick" else ["4095", "7,13,4099", None]
    streams = gen_streams(rng, tier == "quick")
    execs = []
    nrun = 0
    for name, ls, term, final in streams:
        data = term.join(ls) + (term if final else "")
        distinct = sorted(set(ls))
        ztools = [("dconv", ["-S", "-z", "Europe/Berlin", "-f", "%FT%T"]), ("dadd", ["-S", "-z", "America/New_York", "+1h"]),
                  ("dround", ["-S", "--from-zone", "Australia/Sydney", "/1h"])]
        dtools = [("dconv", ["-S", "-i", "%Y%m%d", "-f", "%F"]), ("dadd", ["-S", "-i", "%Y%m%d", "+1d"]), ("dround", ["-S", "-i", "%Y%m%d", "-f", "%F", "Mon"])]
        for tname, targs in ztools if name.startswith("zoned") else dtools if name.startswith("digits") else tools if tier != "quick" or name.startswith(("lines-1638", "small", "window", "one", "empty")) else tools[:1]:
            tool = b.tool(tname)
            # the per-line function: the tool's own result on each distinct line alone (arguments do not go through the reader)
            single = {}
            p = core.run([tool] + targs, inp="".join(x + "\n" for x in distinct[:1]), timeout=30)
            for chunk in [distinct[i:i + 1] for i in range(len(distinct))]:
                pass
            # distinct lines are few (<= 60): one run each
            for x in distinct:
                p = core.run([tool] + targs, inp=x + "\n", timeout=30)
                nrun += 1
                single[x] = p.stdout[:-1] if p.stdout.endswith("\n") else p.stdout
            rid = {}
            for x in distinct:
                rid.setdefault(single[x], len(rid) + 1)
            results = []
            for sc in scheds if len(data) < 3_000_000 or tier != "quick" else scheds[:2] + [None]:
                env = {"LD_PRELOAD": shim}
                if sc:
                    env["VERIF_READ_SCHED"] = sc
                if sc == "1" and len(data) > 400_000:
                    continue
                p = core.run([tool] + targs, inp=data, timeout=300, env=env, max_out=4 * len(data) + (1 << 20))
                nrun += 1
                outl = p.stdout.split("\n")
                if outl and outl[-1] == "":
                    outl.pop()
                results.append((sc, p.returncode, outl))
                ex = [{"e": "Start", "cmd": "%s %s  stream=%s sched=%s" % (tname, " ".join(targs), name, sc or "default"), "n": len(ls),
                       "want": [rid[single[x]] for x in ls]},
                      {"e": "Out", "rc": p.returncode if p.returncode in (0, 1, 2) else 99, "got": [rid.get(o, 0) for o in outl]}]
                execs.append((name, tname, sc, ex))
            # schedules must agree with each other
            base = results[0][2] if results else None
            for sc, rc, outl in results[1:]:
                if outl != base:
                    rep.disagree("stream output depends on the read schedule", {"tool": tname, "stream": name, "sched": sc, "lines": (len(base), len(outl))})
    rep.notes["tool_runs"] = nrun

    def key(bad, ex):
        st = ex[0]["cmd"].split("stream=")[1].split(" ")[0]
        want, got = ex[0]["want"], bad.get("got", [])
        if st.startswith("window-"):
            return "stream beyond the 16 MiB window before 16384 lines: output lost or run crashed"
        if st.endswith("-nofinal") and len(want) > 16384 and got == want[:16384 * ((len(want) - 1) // 16384)]:
            return "stream: unterminated last line (and the lines of its fill) lost after a fill that ended on the 16384-line limit"
        return "stream %s %s: output is not the per-line image of the input" % (st.rstrip("0123456789-"), ex[0]["cmd"].split()[0])
    plain = [e for _, _, _, e in execs]
    # transparency proper: text around a value passes through untouched.  Lines are built as prefix + value + suffix; the expected line is
    # prefix + (the tool's result on the value ALONE, given as an argument) + suffix -- an oracle that does not go through the line scanner
    vals = ["2020-01-01T12:30:00+01:00", "2020-01-01T12:30:00+0100", "2020-01-01T12:30:00-05:30", "2020-06-01T00:00:00Z", "2012-03-04T10:11:12", "2012-03-04",
            "2012-W10-4", "2012-12-31T23:59:59+14:00"]
    sufs = [": started", ":xx", ":75", ":", "::", " tail", ")", ",", ";", "", "]", "/", "=", "\t", "|", " tail: x", "; y=1"]
    pres = ["req ", "a=", "(", "", "[", "x ", "t=2 ", "::"]
    vals0 = vals
    # formats that end in an optional part (the b of business-day dates, an ordinal suffix): the value may be the last thing on its line
    bvals = ["2010-03-05", "2010-03-05b", "2012-02-21", "2012-02-21b"]
    for tname, targs, vals in (("dconv", ["-f", "%FT%T"], vals0), ("dadd", ["+1h"], vals0), ("dround", ["/1h"], vals0), ("dconv", ["-i", "%FT%T%Z", "-f", "%s"], vals0),
                               ("dconv", ["-i", "%Y-%m-%db", "-f", "%F"], bvals), ("dadd", ["-i", "%Y-%m-%db", "-f", "%F", "+1d"], bvals),
                               ("dround", ["-i", "%Y-%m-%db", "-f", "%F", "1mo"], bvals),
                               # date units are added on the wall clock of --from-zone, whichever way the value reaches the tool
                               ("dadd", ["--from-zone", "Europe/Berlin", "-z", "Europe/Berlin", "+1d"], ["2012-03-24T12:00:00", "2012-10-27T12:00:00", "2012-03-24T02:30:00", "2012-06-01T00:00:00"]),
                               ("dadd", ["--from-zone", "Asia/Tokyo", "-z", "Asia/Tokyo", "+1b"], ["2024-01-06T02:00:00", "2024-01-05T23:00:00", "2024-01-08T02:00:00"]),
                               ("dadd", ["--from-zone", "America/New_York", "-z", "America/New_York", "+1mo"], ["2024-02-10T22:00:00", "2024-10-31T23:30:00"]),
                               ("dadd", ["--from-zone", "America/New_York", "-z", "America/New_York", "+36h"], ["2024-03-09T22:00:00", "2024-11-02T12:00:00"]), ("dconv", ["-i", "%Y %b %dth", "-f", "%F"], ["2012 Mar 4th", "2012 Mar 4", "2012 Mar 22nd"])):
        tool = b.tool(tname)
        lines, want = [], []
        alone = {}
        for v in vals:
            p = core.run([tool] + targs[: len(targs) - 1 if tname != "dconv" else len(targs)] + ([v] if tname == "dconv" else [v, targs[-1]]), timeout=30)
            nrun += 1
            alone[v] = p.stdout.rstrip("\n") if p.returncode == 0 and p.stdout.strip() else None
        for vi, v in enumerate(vals):
            if alone[v] is None:
                continue        # the value alone is not accepted under this input format (e.g. no offset for %Z): nothing to compare with
            for si, sf in enumerate(sufs):
                pr = pres[(vi + si) % len(pres)]
                lines.append(pr + v + sf)
                want.append(pr + alone[v] + sf)
        sargs = ["-S"] + targs
        p = core.run([tool] + sargs, inp="".join(x + "\n" for x in lines), timeout=60)
        nrun += 1
        outl = p.stdout.split("\n")
        if outl and outl[-1] == "":
            outl.pop()
        ids = {}
        for x in want:
            ids.setdefault(x, len(ids) + 1)
        plain.append([{"e": "Start", "cmd": "%s %s  stream=decorated sched=default" % (tname, " ".join(sargs)), "n": len(lines), "want": [ids[x] for x in want],
                       "first_line": lines[0]},
                      {"e": "Out", "rc": p.returncode if p.returncode in (0, 1, 2) else 99, "got": [ids.get(o, 0) for o in outl],
                       "first_bad": next(([lines[i], want[i], outl[i] if i < len(outl) else "(missing)"] for i in range(len(want)) if i >= len(outl) or outl[i] != want[i]), [])}])
    rep.notes["tool_runs"] = nrun
    cc.validate_and_report(rep, "StreamTrace", "StreamTrace.cfg", plain, key, "stream_run")


def main(tier):
    rep = core.Report(PID, tier, "model_checking")
    b = core.Build("plain")
    try:
        rng = core.rng("c18")
        model_scale(rep, b, tier)
        real_scale(rep, b, tier, rng)
        rep.cov["rule"] = ("A: one case = (stream of <= 7|8 bytes over {x,\\\\n,\\\\r}, read schedule) reaching EOF in the TLC model, replayed on the real "
                           "reader at W=6 L=3 K=2; B: one trace = one tool run on a real-scale stream under a read schedule (line counts around "
                           "16384, long lines, CRLF, no final newline, > 16 MiB), compared line by line with single-line runs")
        rep.assumptions += ["line terminators are normalised to \\n on output (CRLF -> LF, missing final newline added): not counted as a violation",
                            "the model-scale constants keep K <= L and K | W like 4096 / 16384 / 16 MiB"]
        return rep.finish()
    finally:
        b.close()


def replay(path):
    print(open(path).read())
    return 0
