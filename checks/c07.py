"""C07 -- business-day arithmetic counts Monday-Friday days exactly.
Spec: Biz.tla (AddB/DiffB by counting = closed form; DiffB(i, AddB(i,k)) = k; additivity) + the chain fields bdm/bcum of
Calendar.tla.  A: every day x notation x signed business-day count against the chain (the k-th Mon-Fri day strictly
after/before, located by bcum), ddiff in business days inverts it, month totals; the Biz table (weekday, k) -> offset
through the dadd tool.  B: dadd +Nb / dconv YYYY-MM-DDb runs validated by CalendarTrace."""
from vlib import core, chain as chainmod, caldrv
from checks import calcommon as cc

PID = "C07"
WD = ["", "Mon", "Tue", "Wed", "Thu", "Fri", "Sat", "Sun"]


def collapse(k, m):
    t = caldrv.tail_collapse(k, m)
    if t:
        return t
    if k.startswith("diffb ") and k.endswith(" weekend"):
        return "ddiff-bizdays-from-weekend-start-backwards"
    return None


def main(tier):
    rep = core.Report(PID, tier, "model_checking")
    b = core.Build("plain")
    try:
        quick = tier == "quick"
        r = core.tlc_must_pass("Biz", "Biz.cfg" if quick else "BizThorough.cfg")
        rep.add_tlc("Biz (counting = closed form, Inverse, Additive, Strict)", r)
        table = [core.parse_print(x) for x in r.prints]
        table = [t for t in table if t and "off" in t]
        ch = chainmod.Chain()
        rep.notes["chain"] = {"source": "TLC run of spec/Calendar.tla (cached by spec hash)", **ch.meta}
        drv = b.driver("drv_cal", link_lib=True)
        # A1: the Biz table through the dadd tool, from 7 consecutive days in each of 3 eras
        dadd = b.tool("dadd")
        n = 0
        byk = {}
        for t in table:
            byk.setdefault(t["k"], {})[t["wd"]] = t["off"]
        for base in (ch.ldn_of(1899, 12, 25), ch.ldn_of(2012, 3, 5), ch.ldn_of(3999, 12, 27)):
            days = [base + i for i in range(7)]
            inp = "".join(cc.fmt_row("ymd", ch.row(l)) + "\n" for l in days)
            for k, offs in sorted(byk.items()):
                rc, lines, err = cc.tool_lines(dadd, ["%+db" % k], inp)
                if len(lines) != 7:
                    rep.disagree("cli dadd %+db: %d lines for 7 inputs" % (k, len(lines)), {"stderr": err[:200]})
                    continue
                for l, got in zip(days, lines):
                    n += 1
                    wd = ch.get(l, "wd")
                    want = cc.fmt_row("ymd", ch.row(l + offs[wd]))
                    if got != want:
                        rep.disagree("biz-table dadd from %s" % ("weekend" if wd > 5 else "bizday"),
                                     {"start": cc.fmt_row("ymd", ch.row(l)), "wd": WD[wd], "k": k, "got": got, "want": want})
        rep.count(evaluations=n, distinct=n, traces=n)
        rep.sample({"biz_table_entry": table[len(table) // 2] if table else None})
        core.log("Biz table: %d dadd results" % n)
        # A2: every day (quick: every 3rd) against the chain
        plan = [dict(mode="biz", step=3 if quick else 1, args=(40 if quick else 120,), exhaustive=False, collapse=collapse),
                dict(mode="biz", step=97 if quick else 29, args=(700 if quick else 2600,), exhaustive=False, prefix="far ", collapse=collapse)]
        for item in plan:
            col = item.pop("collapse")
            m = caldrv.run_sharded(drv, ch.path, item["mode"], chainmod.LDN_1601, chainmod.LDN_LAST, item["step"], item["args"])
            caldrv.absorb(rep, m, ch, prefix=item.get("prefix", ""), exhaustive=False, collapse=col)
            core.log("driver biz %s done" % (item["args"],))
        # B: bizda notation through dconv; dadd +Nb in other notations
        bnd = chainmod.boundary_ldns(core.rng("c07"), width=20)
        sample = [l for i, l in enumerate(bnd) if ch.get(l, "wd") <= 5 and l < caldrv.TAIL_FIRST][:: 4 if quick else 1]
        ex = []
        rows = [ch.row(l) for l in sample]
        rc, lines, err = cc.tool_lines(b.tool("dconv"), ["-i", "%Y-%m-%db", "-f", "%F|%G-W%V-%u|%Y-%j|%a"],
                                       "".join(cc.fmt_row("bizda", r) + "\n" for r in rows))
        if len(lines) == len(rows):
            for r, ln in zip(rows, lines):
                p = ln.split("|")
                ex.append([{"e": "Reset", "y": r[1], "m": r[2], "d": r[3]},
                           {"e": "Txt", "src": "dconv -i bizda", "in": cc.fmt_row("bizda", r),
                            "txt": dict(zip(["F", "ywd", "yd", "a"], p)) if len(p) == 4 else {"F": ln}}])
        else:
            rep.disagree("cli dconv -i bizda: %d lines for %d inputs" % (len(lines), len(rows)), {"stderr": err[:200]})
        for kind in ("ymcw", "ywd", "yd"):
            for k in (1, -1, 5, -7, 23):
                rc, lines, err = cc.tool_lines(dadd, ["-i", cc.INFMT[kind], "%+db" % k],
                                               "".join(cc.fmt_row(kind, r) + "\n" for r in rows))
                if len(lines) != len(rows):
                    rep.disagree("cli dadd -i %s %+db: %d lines for %d inputs" % (kind, k, len(lines), len(rows)), {"stderr": err[:200]})
                    continue
                for r, got in zip(rows, lines):
                    # target by the chain: bcum arithmetic on business-day starts
                    tgt = None
                    l = r[0]
                    step = 1 if k > 0 else -1
                    cnt = 0
                    while cnt < abs(k):
                        l += step
                        if ch.get(l, "wd") <= 5:
                            cnt += 1
                    t = ch.row(l)
                    ex.append([{"e": "Reset", "y": t[1], "m": t[2], "d": t[3]},
                               {"e": "Txt", "src": "dadd -i %s %+db" % (kind, k), "in": cc.fmt_row(kind, r), "txt": {cc.OUTKEY[kind]: got}}])
        # date-times under --from-zone: business days are counted from the weekday of the date *as written* (the zone's wall clock), also
        # where the UTC date is on the other side of a weekend; the time of day rides along; as argument and as stdin line
        import datetime
        zl = []
        for zone in ("Asia/Tokyo", "America/New_York", "Pacific/Auckland"):
            for base in (datetime.date(2024, 1, 5), datetime.date(2024, 1, 6), datetime.date(2024, 1, 7), datetime.date(2024, 1, 8), datetime.date(2023, 12, 29)):
                for tod in ("02:00:00", "22:00:00", "12:00:00"):
                    for k in (1, -1, 5, -3):
                        zl.append((zone, base, tod, k))
        for zone, base, tod, k in zl[:: 3 if quick else 1]:
            d = base
            cnt = 0
            while cnt < abs(k):
                d += datetime.timedelta(days=1 if k > 0 else -1)
                if d.isoweekday() <= 5:
                    cnt += 1
            for mode in ("arg", "stdin"):
                a_ = ["--from-zone", zone, "-z", zone, "-f", "%F|%T"]
                val = "%sT%s" % (base.isoformat(), tod)
                if mode == "arg":
                    p = core.run([dadd] + a_ + [val, "--", "%+db" % k], timeout=20)
                else:
                    p = core.run([dadd] + a_ + ["--", "%+db" % k], inp=val + "\n", timeout=20)
                got = p.stdout.strip().split("|")
                if len(got) != 2 or got[1] != tod:
                    rep.disagree("cli dadd --from-zone Nb: time of day not kept", {"cmd": "dadd --from-zone %s -z %s %s %+db (%s)" % (zone, zone, val, k, mode), "out": p.stdout.strip()})
                    continue
                ex.append([{"e": "Reset", "y": d.year, "m": d.month, "d": d.day},
                           {"e": "Txt", "src": "dadd --from-zone Nb (%s)" % mode, "in": "%s %s %+db" % (zone, val, k), "txt": {"F": got[0]}}])
        cc.validate_and_report(rep, "CalendarTrace", "CalendarTrace.cfg", ex, lambda bad, e: "cli %s" % " ".join(bad.get("src", "?").split()[:3]),
                               "tool_execution")
        rep.cov["rule"] = ("A: one case = (day, notation, signed business-day count): |k|<=40|120 on every 3rd|every day, |k|<=700|2600 on "
                           "every 97th|29th day, weekday and weekend starts kept apart; ddiff in business days on the same pairs; "
                           "month totals for all months; the TLC Biz table through dadd; B: dconv/dadd runs validated by CalendarTrace")
        rep.assumptions += ["the oracle for 'the k-th Mon-Fri day strictly after/before' is the chain's cumulative business-day count (bcum)"]
        return rep.finish()
    finally:
        b.close()


def replay(path):
    print(open(path).read())
    return 0
