"""C17 -- dategrep selects exactly the lines whose dates satisfy the expression.
Spec: Expr.tla -- Boolean semantics Eval of trees with a negation flag on every node; the mechanism of src/dexpr.c
(De Morgan push-down + recursive evaluation) is model-checked to equal Eval for every tree of <= 3|4 leaves over 3 atoms
and every valuation; the pinned mechanism (negated || stays ||, DNF-assuming evaluator) is refuted as a control.
A -> B: every tree emitted by TLC is printed as a fully parenthesised expression and in a parenthesis-minimal form, its
atoms instantiated with comparisons (all six operators; date operands and %Y/%m/%d/%a specifier operands), and run
through the real dgrep and dgrep -v (ASan+bounds build) on lines realising the valuations (plus lines without a date);
GrepTrace.tla checks that exactly the Eval-true lines are printed, unchanged and in input order, and that the run
neither crashes nor reports a memory error."""
import datetime, itertools
from concurrent.futures import ThreadPoolExecutor
from vlib import core
from checks import calcommon as cc

PID = "C17"

# atom sets: (text of atom i, predicate on a date)
WDN = ["Mon", "Tue", "Wed", "Thu", "Fri", "Sat", "Sun"]
ATOMSETS = [
    # independent fields: year / day of month / weekday
    [("%Y>2011", lambda d: d.year > 2011), ("%d<=15", lambda d: d.day <= 15), ("%a=='Mon'", lambda d: d.isoweekday() == 1)],
    # date operands, all order operators
    [(">=2012-07-01", lambda d: d >= datetime.date(2012, 7, 1)), ("<2012-03-01", lambda d: d < datetime.date(2012, 3, 1)),
     ("!=2012-05-05", lambda d: d != datetime.date(2012, 5, 5))],
    [(">2012-06-30", lambda d: d > datetime.date(2012, 6, 30)), ("%m!=8", lambda d: d.month != 8), ("<=2012-12-31", lambda d: d <= datetime.date(2012, 12, 31))],
    [("%m>=3", lambda d: d.month >= 3), ("%d<20", lambda d: d.day < 20), ("==2012-03-15", lambda d: d == datetime.date(2012, 3, 15))],
    # a date without operator means equality (also under negation)
    [("2012-03-15", lambda d: d == datetime.date(2012, 3, 15)), ("%Y<2012", lambda d: d.year < 2012), ("2012-05-05", lambda d: d == datetime.date(2012, 5, 5))],
    # week specifiers at year boundaries (the ISO week of 1-3 January may belong to the old year)
    [("%V>=52", lambda d: d.isocalendar()[1] >= 52), ("%u<6", lambda d: d.isoweekday() < 6), ("%m==1", lambda d: d.month == 1)],
    # zero-padded numbers are decimal (08, 09 and 032 are not octal)
    [("%d>=08", lambda d: d.day >= 8), ("%m!=09", lambda d: d.month != 9), ("%j<=032", lambda d: d.timetuple().tm_yday <= 32)],
]


class ZSet(list):
    """an atom set whose lines are UTC stamps read with dgrep -z ZONE: predicates see the zone-local date-time (CPython zoneinfo)"""
    zone = None
    lines = None


def zoned_sets():
    import zoneinfo
    out = []
    for zone, trans in (("Europe/Berlin", [datetime.datetime(2012, 3, 25, 1, 0, 0), datetime.datetime(2012, 10, 28, 1, 0, 0)]),
                        ("America/New_York", [datetime.datetime(2012, 11, 4, 6, 0, 0), datetime.datetime(2012, 3, 11, 7, 0, 0)]),
                        ("Asia/Beirut", [datetime.datetime(2012, 10, 27, 21, 0, 0)])):
        try:
            tz = zoneinfo.ZoneInfo(zone)
        except Exception:
            continue
        zs = ZSet([(">=03:00:00", lambda d: (d.hour, d.minute, d.second) >= (3, 0, 0)), ("%d<=25", lambda d: d.day <= 25), ("%a=='Sun'", lambda d: d.isoweekday() == 7)])
        zs.zone = zone
        stamps = []
        for t in trans:
            # ascending through the transition second: the line before it primes whatever the zone lookup remembers
            for k in (-7200, -3601, -1, 0, 1, 3599, 3600, 7200):
                stamps.append(t + datetime.timedelta(seconds=k))
        stamps += [datetime.datetime(2012, 1, 1, 12, 0, 0), datetime.datetime(2012, 7, 1, 2, 30, 0)]
        zs.lines = [("id%02d %s tail" % (i, u.strftime("%Y-%m-%dT%H:%M:%S")), u.replace(tzinfo=datetime.timezone.utc).astimezone(tz)) for i, u in enumerate(stamps)]
        zs.lines.insert(3, ("no date here", None))
        out.append(zs)
        # the same instants written with a Z or a numeric UTC offset on the line (values that arrive with their zone resolved), and
        # written on the wall clock of another zone under --from-zone: -z must still move them to its zone before they are compared
        zo = ZSet(list(zs))
        zo.args = ["-z", zone]
        offs = [("Z", 0), ("+02:00", 7200), ("-05:30", -19800), ("+00:00", 0), ("+13:45", 49500)]
        zo.lines = []
        for i, u in enumerate(stamps):
            sfx, sec = offs[i % len(offs)]
            w = u + datetime.timedelta(seconds=sec)
            zo.lines.append(("id%02d %s%s tail" % (i, w.strftime("%Y-%m-%dT%H:%M:%S"), sfx), u.replace(tzinfo=datetime.timezone.utc).astimezone(tz)))
        zo.lines.insert(2, ("nothing here", None))
        out.append(zo)
        other = "Asia/Tokyo" if zone != "Asia/Tokyo" else "Europe/Berlin"
        try:
            tzo = zoneinfo.ZoneInfo(other)
        except Exception:
            continue
        zf = ZSet(list(zs))
        zf.args = ["--from-zone", other, "-z", zone]
        zf.lines = [("id%02d %s tail" % (i, u.replace(tzinfo=datetime.timezone.utc).astimezone(tzo).strftime("%Y-%m-%dT%H:%M:%S")),
                     u.replace(tzinfo=datetime.timezone.utc).astimezone(tz)) for i, u in enumerate(stamps)]
        out.append(zf)
    return out


def subsecond_sets():
    """stamps read with -i '%FT%T.%N': ordering and equality down to the nanosecond (lines within one second must still be told apart)"""
    out = []
    base = datetime.datetime(2012, 3, 4, 10, 0, 0)

    def key(d):
        return (d[0], d[1])
    for n1, n2, n3 in ((500000000, 1, 999999999), (1, 0, 500000001), (999999999, 500000000, 2)):
        v1, v2, v3 = (base, n1), (base + datetime.timedelta(seconds=1), n2), (base, n3)
        zs = ZSet([(">%s.%09d" % (v1[0].strftime("%Y-%m-%dT%H:%M:%S"), v1[1]), lambda d, v=v1: key(d) > v),
                   ("<=%s.%09d" % (v2[0].strftime("%Y-%m-%dT%H:%M:%S"), v2[1]), lambda d, v=v2: key(d) <= v),
                   ("!=%s.%09d" % (v3[0].strftime("%Y-%m-%dT%H:%M:%S"), v3[1]), lambda d, v=v3: key(d) != v)])
        zs.args = ["-i", "%FT%T.%N"]
        stamps = []
        for sec in (-1, 0, 1, 2):
            for ns in sorted({0, 1, 2, 499999999, 500000000, 500000001, 999999999, n1, n2, n3}):
                stamps.append((base + datetime.timedelta(seconds=sec), ns))
        zs.lines = [("id%02d %s.%09d tail" % (i, t.strftime("%Y-%m-%dT%H:%M:%S"), ns), (t, ns)) for i, (t, ns) in enumerate(stamps)]
        zs.lines.insert(5, ("no stamp here", None))
        out.append(zs)
        # the same as times of day alone (the expression is then compared by the time comparison, not the date-time one), with and
        # without a fraction in the expression's own value
        zt = ZSet([(">%s.%09d" % (v1[0].strftime("%H:%M:%S"), v1[1]), lambda d, v=v1: key(d) > v),
                   ("<=%s.%09d" % (v2[0].strftime("%H:%M:%S"), v2[1]), lambda d, v=v2: key(d) <= v),
                   ("!=%s.%09d" % (v3[0].strftime("%H:%M:%S"), v3[1]), lambda d, v=v3: key(d) != v),
                   (">%s.%09d" % (v3[0].strftime("%H:%M:%S"), 0), lambda d, v=(v3[0], 0): key(d) > v)])
        zt.args = ["-i", "%T.%N"]
        zt.lines = [("id%02d %s.%09d tail" % (i, t.strftime("%H:%M:%S"), ns), (t, ns)) for i, (t, ns) in enumerate(stamps)]
        zt.lines.insert(3, ("no stamp here", None))
        out.append(zt)
    return out


def lines_for(aset):
    """dates realising as many valuations of the atom set as exist, plus lines without a date"""
    want = {}
    d = datetime.date(2010, 1, 1)
    while d < datetime.date(2014, 1, 1) and len(want) < 8:
        v = tuple(p(d) for _, p in aset)
        want.setdefault(v, d)
        d += datetime.timedelta(days=1)
    # always include the special dates mentioned by the atoms
    extra = [datetime.date(2012, 5, 5), datetime.date(2012, 3, 15), datetime.date(2012, 7, 1), datetime.date(2012, 6, 30)]
    # the days around new year of every year type (ISO week 52/53/1 on both sides)
    for y in (2009, 2010, 2012, 2015, 2016, 2020, 2021, 2024, 2026, 2027, 2032, 2033):
        extra += [datetime.date(y, 12, 28), datetime.date(y, 12, 31), datetime.date(y + 1, 1, 1), datetime.date(y + 1, 1, 3), datetime.date(y + 1, 1, 4)]
    ds = list(want.values()) + extra
    out = []
    for i, x in enumerate(ds):
        out.append(("id%02d %s trailing text" % (i, x.isoformat()), x))
    out.insert(2, ("no date on this line", None))
    out.append(("", None))
    return out


def show(n, atoms, minimal, parent=None, side=None):
    if n["t"] == "val":
        s = atoms[n["a"] - 1]
        if not n["neg"]:
            return s
        # "!==D" would be scanned as "!=" "=D": parenthesise such atoms (and, for variety, every other one)
        return "!(" + s + ")" if s.startswith("=") or (not minimal and n["a"] == 2) else "!" + s
    op = " && " if n["t"] == "conj" else " || "
    l = show(n["l"], atoms, minimal, n["t"], "l")
    r = show(n["r"], atoms, minimal, n["t"], "r")
    s = l + op + r
    need = True
    if minimal and not n["neg"]:
        # && binds tighter than ||, both are left associative
        if parent is None:
            need = False
        elif parent == "disj" and n["t"] == "conj":
            need = False
        elif parent == n["t"] and side == "l":
            need = False
    if n["neg"]:
        return "!(" + s + ")"
    return "(" + s + ")" if need else s


def main(tier):
    rep = core.Report(PID, tier, "model_checking")
    bs = core.Build("san")
    try:
        quick = tier == "quick"
        rng = core.rng("c17")
        trees = []
        # quick: every tree of <= 3 leaves over 3 atoms (7,062); thorough: <= 4 leaves (428,844; four-leaf trees are grown by Next from seed
        # states so that TLC's workers share them -- as initial states they did not finish in an hour)
        for cfgname in (("Expr.cfg",) if quick else ("ExprThorough.cfg",)):
            r = core.tlc_must_pass("Expr", cfgname, heap="12g", timeout=5400)
            rep.add_tlc("Expr (%s: mechanism = Eval for all trees and valuations; negations pushed down)" % cfgname, r)
            ts = [core.parse_print(x) for x in r.prints]
            trees += [t for t in ts if t and "t" in t]
            r.prints = []
        o = core.tlc("Expr", "ExprOld.cfg", workers=8, keep_prints=False, timeout=600)
        if "Refines" not in o.violated:
            raise core.MachineryError("negative control failed: pinned dexpr mechanism not refuted")
        rep.notes["negative_control"] = "ExprOld.cfg (pinned __denega/__dnf evaluator) violates Refines as required"
        dgrep = bs.tool("dgrep")
        if quick:
            trees = [t for i, t in enumerate(trees) if t["t"] == "val" or i % 4 == core.seed() % 4]
        elif len(trees) > 60000:
            trees = rng.sample(trees, 60000)
        jobs = []
        for ti, t in enumerate(trees):
            aset = ATOMSETS[ti % len(ATOMSETS)]
            atoms = [a for a, _ in aset]
            forms = {show(t, atoms, False), show(t, atoms, True)}
            for f in forms:
                for inv in (False, True) if (ti % 3 == 0 or not quick) else (False,):
                    jobs.append((t, aset, f, inv))

        # a part of the trees also on zone-local values (dgrep -z): UTC stamps through the transition seconds of a zone, in ascending order
        zsets = zoned_sets()
        for ti, t in enumerate(trees[: 150 if quick else 3000]):
            if not zsets:
                break
            zs = zsets[ti % len(zsets)]
            jobs.append((t, zs, show(t, [a for a, _ in zs], ti % 2 == 0), ti % 5 == 0))
        ssets = subsecond_sets()
        for ti, t in enumerate(trees[: 120 if quick else 3000]):
            ss = ssets[ti % len(ssets)]
            jobs.append((t, ss, show(t, [a for a, _ in ss], ti % 2 == 1), ti % 4 == 0))
        lines_cache = {id(a): lines_for(a) for a in ATOMSETS}
        for zs in zsets + ssets:
            lines_cache[id(zs)] = zs.lines

        def one(job):
            t, aset, expr, inv = job
            ls = lines_cache[id(aset)]
            zargs = ["-z", aset.zone] if getattr(aset, "zone", None) else list(getattr(aset, "args", []))
            p = core.run([dgrep] + zargs + (["-v"] if inv else []) + [expr], inp="".join(x + "\n" for x, _ in ls), timeout=20, env=bs.env)
            return job, p.returncode, p.stdout.split("\n")[:-1] if p.stdout else [], p.stderr[-400:]
        execs = []
        with ThreadPoolExecutor(max_workers=core.NCPU) as ex:
            for (t, aset, expr, inv), rc, out, err in ex.map(one, jobs):
                ls = lines_cache[id(aset)]
                e = [{"e": "Reset", "cmd": "dgrep %s%s'%s'" % ("-z %s " % aset.zone if getattr(aset, "zone", None) else " ".join(getattr(aset, "args", [])) + " " if getattr(aset, "args", None) else "", "-v " if inv else "", expr), "tree": t, "inv": inv}]
                pos = 0
                inorder = True
                used = 0
                for txt, d in ls:
                    printed = txt in out[pos:] if txt else ("" in out[pos:])
                    if printed:
                        k = out.index(txt, pos)
                        if k != pos:
                            inorder = False
                        pos = k + 1
                        used += 1
                    e.append({"e": "Line", "line": txt, "val": [bool(p(d)) if d else False for _, p in aset], "hasdate": d is not None,
                              "printed": printed, "intact": printed})
                e.append({"e": "End", "rc": rc if rc in (0, 1) else (99 if "Sanitizer" in err or rc == 99 else rc), "inorder": inorder, "extra": len(out) - used,
                          "stderr": err[-160:] if rc not in (0, 1) else ""})
                execs.append(e)
        rep.notes["tool_runs"] = len(jobs)

        def key(bad, ex):
            if bad.get("e") == "End":
                return "dgrep crash or memory error (rc=%s)" % bad.get("rc") if bad.get("rc") not in (0, 1) else "dgrep output order / extra lines"
            t = ex[0]["tree"]
            shape = t["t"] + ("-neg" if t.get("neg") else "")
            return "dgrep wrong selection: root %s%s" % (shape, " -v" if ex[0]["inv"] else "")
        cc.validate_and_report(rep, "GrepTrace", "GrepTrace.cfg", execs, key, "dgrep_run")
        rep.cov["rule"] = ("one trace = one dgrep invocation (expression from a TLC-emitted tree in explicit and minimal parenthesisation, with and "
                           "without -v) on ~14 lines realising the valuations of its atoms; trees: all with <= 3 leaves over 3 atoms and all "
                           "negation placements (quick: a seeded quarter), thorough: <= 4 leaves (60k sampled); four atom sets covering the "
                           "six operators with date and specifier operands")
        rep.assumptions += ["weekday and month names are given as quoted strings (%a=='Mon'), which is what the grammar accepts",
                            "memory errors are observed by the ASan+bounds build of dgrep (exit status 99)"]
        return rep.finish()
    finally:
        bs.close()


def replay(path):
    print(open(path).read())
    return 0
