"""C16 -- dateround lands on the nearest requested target and is idempotent.
Spec: Round.tla -- on a scaled calendar TLC compares, for every date-time x target x direction x --next, the declarative
meaning (nearest admissible point on the requested side, finer fields kept, missing day -> last of month) with the
constructive rule (set the field, carry into the next coarser unit when on the wrong side); Idempotent, Strict, Stays;
likewise co-class rounding.  B: runs of the real dround (single and chained RNDSPECs, dates and date-times, stdin batches)
are decomposed via the TLC day chain and validated by RoundTrace.tla, which applies the same rule on the real calendar;
rounding the result again (without --next) must leave it unchanged."""
import datetime, re
from vlib import core, chain as chainmod, caldrv
from checks import calcommon as cc

PID = "C16"
WD = ["", "Mon", "Tue", "Wed", "Thu", "Fri", "Sat", "Sun"]
MON = ["", "Jan", "Feb", "Mar", "Apr", "May", "Jun", "Jul", "Aug", "Sep", "Oct", "Nov", "Dec"]
D0 = datetime.date(1582, 10, 15)


def decomp(ch, txt, with_time):
    m = re.match(r"(\d{4})-(\d\d)-(\d\d)(?:T(\d\d):(\d\d):(\d\d))?$", txt)
    if not m:
        return None
    y, mo, d = int(m.group(1)), int(m.group(2)), int(m.group(3))
    try:
        l = (datetime.date(y, mo, d) - D0).days
    except ValueError:
        return None
    if not (chainmod.LDN_1601 <= l <= chainmod.LDN_LAST):
        return None
    r = ch.row(l)      # decomposition from the TLC-emitted chain
    sod = 0
    if m.group(4) is not None:
        sod = int(m.group(4)) * 3600 + int(m.group(5)) * 60 + int(m.group(6))
    return {"ldn": r[0], "y": r[1], "m": r[2], "d": r[3], "wd": r[4], "sod": sod}


def specs(with_time, rng):
    """(argument text, kind, v, dir) candidates"""
    out = []
    for w in range(1, 8):
        out.append((WD[w], "wd", w, 1))
        out.append(("-" + WD[w], "wd", w, -1))
    for m in range(1, 13):
        out.append((MON[m], "mon", m, 1))
        out.append(("-" + MON[m], "mon", m, -1))
    for d in list(range(1, 32)):
        out.append(("%dd" % d, "dom", d, 1))
        out.append(("-%dd" % d, "dom", d, -1))
    for n in (1, 2, 3, 4, 6, 12):
        out.append(("/%dmo" % n, "comon", n, 1))
        out.append(("/-%dmo" % n, "comon", n, -1))
    for n in (1, 2, 5, 10, 100):
        out.append(("/%dy" % n, "coy", n, 1))
        out.append(("/-%dy" % n, "coy", n, -1))
    if with_time:
        for h in range(24):
            out.append(("%dh" % h, "h", h, 1))
            out.append(("-%dh" % h, "h", h, -1))
        for v in range(0, 60, 1):
            out.append(("%dm" % v, "mi", v, 1))
            out.append(("-%dm" % v, "mi", v, -1))
            out.append(("%ds" % v, "s", v, 1))
            out.append(("-%ds" % v, "s", v, -1))
        for n in (1, 2, 3, 4, 6, 8, 12):
            out.append(("/%dh" % n, "coh", n, 1))
            out.append(("/-%dh" % n, "coh", n, -1))
        for n in (1, 2, 3, 5, 10, 15, 20, 30):
            out.append(("/%dm" % n, "comi", n, 1))
            out.append(("/-%dm" % n, "comi", n, -1))
            out.append(("/%ds" % n, "cos", n, 1))
            out.append(("/-%ds" % n, "cos", n, -1))
        out.append(("/1d", "cod", 1, 1))
        out.append(("/-1d", "cod", 1, -1))
    return out


def main(tier):
    rep = core.Report(PID, tier, "model_checking")
    b = core.Build("plain")
    try:
        quick = tier == "quick"
        rng = core.rng("c16")
        r = core.tlc_must_pass("Round", "Round.cfg", timeout=900, keep_prints=False)
        rep.add_tlc("Round (constructive = declarative; Idempotent, Strict, Stays; co-class)", r)
        ch = chainmod.Chain()
        rep.notes["chain"] = {"source": "TLC run of spec/Calendar.tla (cached by spec hash)", **ch.meta}
        dround = b.tool("dround")
        bnd = chainmod.boundary_ldns(core.rng("c16"), width=5)
        days = [l for l in bnd if chainmod.LDN_1601 + 800 < l < caldrv.TAIL_FIRST - 800]
        # month ends and leap days are where the clamp matters
        days = [l for l in days if ch.get(l, "d") >= 28 or ch.get(l, "d") <= 2][:: 6 if quick else 1] + days[:: 40 if quick else 5]
        times = [0, 30, 37230, 86370, 86399, 43200]
        execs = []
        nrun = 0
        single = {}
        for with_time in (False, True):
            sp = specs(with_time, rng)
            inputs = []
            for l in days:
                if with_time:
                    for s in ([rng.choice(times)] if quick else times[:3]):
                        inputs.append("%sT%02d:%02d:%02d" % (ch.fmtF(l), s // 3600, s // 60 % 60, s % 60))
                else:
                    inputs.append(ch.fmtF(l))
            inp = "".join(x + "\n" for x in inputs)
            must = [x for x in sp if x[1] in ("mon", "wd", "comon", "coy", "cod") or (x[1] == "dom" and x[2] >= 28)]
            rest = [x for x in sp if x not in must]
            chosen = sp if not quick else must + rng.sample(rest, 40 if with_time else 20)
            for arg, kind, v, dr in chosen:
                for nxt in (False, True):
                    args = (["-n"] if nxt else []) + (["--", arg] if arg.startswith("-") else [arg])
                    rc, lines, err = cc.tool_lines(dround, args, inp)
                    nrun += 1
                    if len(lines) != len(inputs):
                        rep.disagree("dround %s%s: %d lines for %d inputs" % ("-n " if nxt else "", kind, len(lines), len(inputs)),
                                     {"arg": arg, "stderr": err[:200]})
                        continue
                    # idempotence: rounding the outputs again without --next returns them unchanged
                    if not nxt:
                        valid = [x for x in lines if decomp(ch, x, with_time)]      # results inside the supported range
                        rc2, lines2, err2 = cc.tool_lines(dround, args, "".join(x + "\n" for x in valid))
                        nrun += 1
                        if lines2 != valid:
                            k = [i for i in range(min(len(valid), len(lines2))) if valid[i] != lines2[i]][:1]
                            rep.disagree("dround %s not idempotent" % kind, {"arg": arg, "first": (valid[k[0]], lines2[k[0]]) if k else (len(valid), len(lines2))})
                    for xin, got in zip(inputs, lines):
                        x = decomp(ch, xin, with_time)
                        res = decomp(ch, got, with_time)
                        if res is None:
                            res = {"ldn": 0, "y": 1582, "m": 10, "d": 15, "wd": 5, "sod": 0}     # unreadable / out of range: a value nothing rounds to
                        execs.append([{"e": "Reset", "x": x, "txt": xin},
                                      {"e": "Round", "cmd": "dround %s%s" % ("-n " if nxt else "", arg), "kind": kind, "v": v, "dir": dr, "next": nxt,
                                       "res": res, "out": got}])
        # inputs written as ISO week dates, ordinal dates and n-th-weekday dates, results printed as %F (a value held in one of these
        # notations is converted for printing: whatever the rounding left in it must denote the right day), year ends of every year type,
        # single specs and the same spec twice with --next (the second step starts from what the first left behind)
        yends = sorted(set(ch.ldn_of(y, 12, 22) + k for y in range(1995, 2036) for k in range(0, 21)))
        nsp = [x for x in specs(False, rng) if x[1] in ("wd", "mon") or (x[1] == "dom" and x[2] in (1, 15, 28, 29, 30, 31))]
        for nota in ("ywd", "yd", "ymcw"):
            # plus fixed days in the century years and at the ends of the 1901..2100 span (the weekday tables of these notations end there)
            cent = [ch.ldn_of(y, m_, d_) for y in (1700, 1800, 1899, 1900, 1901, 2000, 2099, 2100, 2101, 2200, 2400, 3000)
                    for m_, d_ in ((1, 1), (1, 4), (1, 8), (3, 1), (3, 2), (6, 15), (12, 26), (12, 31))]
            ndays = yends[:: 2 if quick else 1] + days[:: 9 if quick else 2] + cent
            ninputs = [cc.fmt_row(nota, ch.row(l)) for l in ndays]
            ninp = "".join(x + "\n" for x in ninputs)
            for arg, kind, v, dr in (nsp if not quick else [x for x in nsp if x[1] == "wd"] + rng.sample([x for x in nsp if x[1] != "wd"], 8)):
                for nxt, twice in ((False, False), (True, False), (True, True)):
                    if twice and kind != "wd":
                        continue
                    a1 = ["--", arg] if arg.startswith("-") else [arg]
                    args = ["-i", cc.INFMT[nota], "-f", "%F"] + (["-n"] if nxt else []) + a1 + (a1[-1:] if twice else [])
                    rc, lines, err = cc.tool_lines(dround, args, ninp)
                    nrun += 1
                    if len(lines) != len(ninputs):
                        rep.disagree("dround %s input %s%s: %d lines for %d inputs" % (nota, "-n " if nxt else "", kind, len(lines), len(ninputs)), {"arg": arg, "stderr": err[:200]})
                        continue
                    for l, xin, got in zip(ndays, ninputs, lines):
                        x = decomp(ch, ch.fmtF(l), False)
                        res = decomp(ch, got, False) or {"ldn": 0, "y": 1582, "m": 10, "d": 15, "wd": 5, "sod": 0}
                        ex = [{"e": "Reset", "x": x, "txt": xin}]
                        if twice:
                            # the first of the two steps is what the single --next run printed for this input (validated by its own trace)
                            mid = decomp(ch, single.get((nota, arg, xin), ""), False)
                            if mid is None:
                                continue
                            ex.append({"e": "Round", "cmd": "dround -n %s (first of two)" % arg, "kind": kind, "v": v, "dir": dr, "next": True, "res": mid, "out": single[(nota, arg, xin)], "nota": nota})
                        elif nxt:
                            single[(nota, arg, xin)] = got
                        ex.append({"e": "Round", "cmd": "dround -i %s -f %%F %s%s%s" % (nota, "-n " if nxt else "", arg, " " + arg if twice else ""), "kind": kind, "v": v, "dir": dr,
                                   "next": nxt, "res": res, "out": got, "nota": nota})
                        execs.append(ex)
        # business-day dates (YYYY-MM-DDb): n-th business day targets are exact; a weekday target needs the conversion *to* that notation,
        # which the library does not have (see C01: bizda is a source only) -- probed, listed as a finding
        for xin, arg, want in (("2012-02-01b", "3b", "2012-02-03b"), ("2012-02-03b", "3b", "2012-02-03b"), ("2012-02-10b", "3b", "2012-03-03b"), ("2012-02-10b", "-3b", "2012-02-03b")):
            p = core.run([dround, xin, "--", arg], timeout=20)
            nrun += 1
            if p.stdout.strip() != want:
                rep.disagree("dround business-day target on a business-day date", {"cmd": "dround %s %s" % (xin, arg), "got": p.stdout.strip(), "want": want})
        p = core.run([dround, "2012-02-01b", "Mon"], timeout=20)
        nrun += 1
        if p.stdout.strip() != "2012-02-04b":
            rep.disagree("dround-weekday-target-on-a-business-day-date", {"cmd": "dround 2012-02-01b Mon", "got": p.stdout.strip(), "want": "2012-02-04b (Monday 2012-02-06)"})
        # the same instants given as seconds since the epoch (-i %s -f %s): before 1970, around 2^31 and beyond 2^32
        # (epoch values have no fields to set: the tool offers them the co-classes only; the value 0 itself cannot be read, see the C11 finding)
        tsp = [x for x in specs(True, rng) if x[1] in ("coh", "comi", "cos")]      # (/1d leaves an epoch value unchanged: day co-classes are not offered for them)
        # (non-negative only: a negative epoch on a stdin line loses its sign, see the C11 finding)
        ep_days = [141427, 141427 + 1, 141427 + 24855, 141427 + 24856, 141427 + 49710, 141427 + 49711, 141427 + 60000, 141427 + 400000]
        ep_inputs = [(l, sd) for l in ep_days for sd in (0, 30, 37230, 86370, 86399) if (l, sd) != (141427, 0)]
        einp = "".join("%d\n" % ((l - 141427) * 86400 + sd) for l, sd in ep_inputs)

        def from_epoch(txt):
            try:
                n = int(txt)
            except ValueError:
                return None
            l, sd = 141427 + n // 86400, n % 86400
            if not (chainmod.LDN_1601 <= l <= chainmod.LDN_LAST):
                return None
            r = ch.row(l)
            return {"ldn": r[0], "y": r[1], "m": r[2], "d": r[3], "wd": r[4], "sod": sd}
        for arg, kind, v, dr in tsp:
            for nxt in (False, True):
                args = ["-i", "%s", "-f", "%s"] + (["-n"] if nxt else []) + (["--", arg] if arg.startswith("-") else [arg])
                rc, lines, err = cc.tool_lines(dround, args, einp)
                nrun += 1
                if len(lines) != len(ep_inputs):
                    rep.disagree("dround epoch input %s%s: %d lines for %d inputs" % ("-n " if nxt else "", kind, len(lines), len(ep_inputs)), {"arg": arg, "stderr": err[:200]})
                    continue
                for (l, sd), got in zip(ep_inputs, lines):
                    x = from_epoch(str((l - 141427) * 86400 + sd))
                    res = from_epoch(got) or {"ldn": 0, "y": 1582, "m": 10, "d": 15, "wd": 5, "sod": 0}
                    execs.append([{"e": "Reset", "x": x, "txt": "@%d" % ((l - 141427) * 86400 + sd)},
                                  {"e": "Round", "cmd": "dround -i %%s %s%s" % ("-n " if nxt else "", arg), "kind": kind, "v": v, "dir": dr, "next": nxt, "res": res, "out": got,
                                   "epoch": True}])
        # chained RNDSPECs are evaluated left to right
        sp = specs(True, rng)
        for i in range(40 if quick else 600):
            l = rng.choice(days)
            s = rng.choice(times)
            xin = "%sT%02d:%02d:%02d" % (ch.fmtF(l), s // 3600, s // 60 % 60, s % 60)
            chain_ = [rng.choice(sp) for _ in range(rng.randrange(2, 4))]
            ex = [{"e": "Reset", "x": decomp(ch, xin, True), "txt": xin}]
            cur = xin
            ok = True
            # the tool applies all specs in one run; intermediate values come from single-spec runs of the same tool on
            # the previous intermediate value (C13 establishes that runs do not influence each other)
            args_all = []
            for arg, kind, v, dr in chain_:
                p = core.run([dround, cur] + (["--", arg] if arg.startswith("-") else [arg]), timeout=20)
                nrun += 1
                nxt_val = p.stdout.strip()
                res = decomp(ch, nxt_val, True) or {"ldn": 0, "y": 1582, "m": 10, "d": 15, "wd": 5, "sod": 0}
                ex.append({"e": "Round", "cmd": "dround %s %s" % (cur, arg), "kind": kind, "v": v, "dir": dr, "next": False, "res": res, "out": nxt_val})
                cur = nxt_val
                args_all.append(arg)
            p = core.run([dround, xin, "--"] + args_all, timeout=20)
            nrun += 1
            if p.stdout.strip() != cur:
                rep.disagree("dround chain differs from left-to-right single steps", {"input": xin, "specs": args_all, "all": p.stdout.strip(), "stepwise": cur})
            execs.append(ex)
        rep.notes["tool_runs"] = nrun

        def key(bad, ex):
            return "dround %s%s%s dir=%s" % ("epoch input " if bad.get("epoch") else bad["nota"] + " input " if bad.get("nota") else "", "-n " if bad.get("next") else "", bad.get("kind"), bad.get("dir"))
        cc.validate_and_report(rep, "RoundTrace", "RoundTrace.cfg", execs, key, "dround_run")
        rep.cov["rule"] = ("one trace = one input value and the RNDSPEC(s) applied to it: weekday, month, day-of-month 1..31, hour, minute, "
                           "second values, co-classes /N{h,m,s} for divisors, /1d, /N mo, /N y, both directions, with and without --next; inputs: "
                           "month ends, leap days and boundary-window days x times; quick: 120 of the 616 specs seeded")
        rep.assumptions += ["input and output dates are decomposed by lookup in the TLC-emitted chain; RoundTrace re-derives their day numbers (Consistent)"]
        return rep.finish()
    finally:
        b.close()


def replay(path):
    print(open(path).read())
    return 0
