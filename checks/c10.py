"""C10 -- parsers and formatters are memory-safe and total on arbitrary input.
Spec: Lex.tla (the specifier tokeniser transcribed over byte classes + the loop around it: TokSafe, Progress for every string
up to the bound; the pinned default branch refuted) and Buf.tla (the write discipline of the formatters and line writers:
Within for every format of writer classes and every buffer size; the pinned unguarded suffix / fixed writers refuted).
The decisive observation for memory safety is AddressSanitizer + bounds (build variant "san"): every string and every output
buffer lives in an exact-size heap block, so the first byte read or written outside traps.  What the models contribute is the
exhaustive small-scope input structure (every abstract string is concretised and replayed as format AND as input on the
tokeniser, the parsers, the formatters and all tools; every (format, buffer size) of Buf on the formatters) and the
conformance of the tokeniser with Lex.tla (SafeTrace.tla compares token count and end offset per string)."""
import datetime, re, os, re, json, select, subprocess, threading, time, collections, itertools
from concurrent.futures import ThreadPoolExecutor
from vlib import core
from checks import calcommon as cc

PID = "C10"
CONC = {"%": ["%"], "_": ["_", "0", " ", "-", "r"], "O": ["O"], "Y": ["Y", "m", "y", "u", "w", "c", "U", "V", "C", "W", "G", "g", "q", "F"],
        "d": ["d", "j", "D"], "s": ["s"], "N": ["N"], "H": ["H", "M", "S", "T", "I", "a", "A", "p", "P", "Z", "Q", "n"],
        "t": ["t"], "h": ["h"], "b": ["b", "B"], "9": ["1", "5", "9", "2", "7"], "x": ["x", ":", "/", "\x01", "\xff", "k", "."]}


def hx(s):
    if s is None:
        return "-"
    b = s if isinstance(s, bytes) else s.encode("latin-1")
    return b.hex() if b else "E"


def concretise(abstract, k):
    return "".join(CONC[c][(k + 3 * i) % len(CONC[c])] for i, c in enumerate(abstract))


def batch(drv, env, cmds, per_cmd_timeout=5.0, label=""):
    """feed cmds to the line driver; on a crash / hang note the command, restart behind it.
    returns (outputs[list aligned with cmds: dict | ('crash', stderr) | ('hang', '')])"""
    out = [None] * len(cmds)
    pos = 0
    restarts = 0
    while pos < len(cmds):
        p = subprocess.Popen([drv], stdin=subprocess.PIPE, stdout=subprocess.PIPE, stderr=subprocess.PIPE, env=env, bufsize=0)
        chunk = cmds[pos:]

        def feed():
            try:
                data = ("\n".join(chunk) + "\n").encode("latin-1")
                p.stdin.write(data)
                p.stdin.close()
            except (BrokenPipeError, OSError, ValueError):
                pass
        th = threading.Thread(target=feed, daemon=True)
        th.start()
        buf = b""
        got = 0
        status = "eof"
        while True:
            r, _, _ = select.select([p.stdout], [], [], per_cmd_timeout)
            if not r:
                status = "hang"
                break
            data = os.read(p.stdout.fileno(), 1 << 16)
            if not data:
                break
            buf += data
            while b"\n" in buf:
                line, buf = buf.split(b"\n", 1)
                try:
                    out[pos + got] = json.loads(line.decode("latin-1"))
                except ValueError:
                    out[pos + got] = {"e": "garbled"}
                got += 1
        if status == "hang":
            p.kill()
        try:
            err = p.stderr.read().decode("latin-1", "replace")
        except Exception:
            err = ""
        p.wait()
        th.join(timeout=2)
        if got >= len(chunk):
            break
        if status == "hang":
            # only a hang if the command alone, with a minute of patience, does not answer either (loaded machines)
            try:
                p1 = subprocess.run([drv], input=(cmds[pos + got] + "\n").encode("latin-1"), stdout=subprocess.PIPE, stderr=subprocess.PIPE, env=env, timeout=60)
                line1 = p1.stdout.split(b"\n")[0]
                out[pos + got] = json.loads(line1.decode("latin-1")) if p1.returncode == 0 and line1 else ("crash", p1.stderr.decode("latin-1", "replace")[-6000:])
            except subprocess.TimeoutExpired:
                out[pos + got] = ("hang", "")
            except ValueError:
                out[pos + got] = {"e": "garbled"}
        else:
            out[pos + got] = ("crash", err[-6000:])
        pos += got + 1
        restarts += 1
        if restarts > 3000:
            raise core.MachineryError("driver %s restarted more than 400 times (%s)" % (drv, label))
    return out


def unescape(s):
    """what -e makes of a literal: backslash + a..v maps to the control characters the tools document, any other escaped byte stands for itself, a
    trailing backslash stays"""
    m = "\a\bcd\x1b\fghijklm\nopq\rs\tu\v"
    out, i = [], 0
    if "\\" not in s:
        return s
    while i < len(s):
        c = s[i]
        if c != "\\":
            out.append(c)
            i += 1
        elif i + 1 >= len(s):
            out.append("\\")
            i += 1
        else:
            n = s[i + 1]
            out.append(m[ord(n) - 97] if "a" <= n <= "v" else n)
            i += 2
    return "".join(out)


def asan_key(err):
    """canonical key of a sanitizer report / abort: kind + first frame inside the project"""
    kind = "crash"
    m = re.search(r"ERROR: AddressSanitizer: ([\w-]+)", err)
    if m:
        kind = "asan " + m.group(1)
    elif "runtime error:" in err:
        m2 = re.search(r"runtime error: ([^\n]{0,60})", err)
        kind = "ubsan " + (m2.group(1).split(" for ")[0].split(" at ")[0] if m2 else "")
        kind = re.sub(r"\d+", "N", kind)
    elif "Assertion" in err:
        m2 = re.search(r"Assertion `([^']*)' failed", err)
        kind = "assertion " + (m2.group(1) if m2 else "")
    what = ""
    m = re.search(r"(READ|WRITE) of size", err)
    if m:
        what = " " + m.group(1).lower()
    for fm in re.finditer(r"#\d+ 0x[0-9a-f]+ in (\w+) [^\n]*?/(lib|src)/([\w.-]+):(\d+)", err):
        return "%s%s in %s (%s)" % (kind, what, fm.group(1), fm.group(3))
    m = re.search(r"(\w+\.c):(\d+): (\w+): Assertion", err)
    if m:
        return "%s in %s (%s)" % (kind, m.group(3), m.group(1))
    return kind + what


REAL_TOKS = ["%Y", "%y", "%m", "%d", "%j", "%F", "%T", "%H", "%M", "%S", "%N", "%a", "%A", "%b", "%B", "%_a", "%_b", "%c", "%C", "%U", "%V", "%W", "%G", "%u", "%w",
             "%q", "%Q", "%p", "%P", "%I", "%s", "%Z", "%db", "%dB", "%dth", "%mth", "%jth", "%Od", "%Om", "%OY", "%Oc", "%-d", "% d", "%%", "%t", "%n", "x", "-",
             "%rY", "%rs", "%_y", "%Oy", "%Yth", "%cth", "%k", "%"]
CLASS_TOKS = {"lit": ["x", "%%"], "clip2": ["%d", "%H", "%V"], "clip4": ["%Y", "%B"], "aon10": ["%F"], "sfx": ["%db", "%dB"], "ord": ["%dth", "%mth"],
              "fix2": ["%Q", "%p"], "fix3": ["%Z", "%_a%_b%q"]}
VALUES = ["2012-03-06T10:11:12", "2012-03-04", "10:11:12", "2012-12-31T23:59:59", "1601-01-01", "4095-12-31T00:00:00"]


def main(tier):
    rep = core.Report(PID, tier, "exploration")
    b = core.Build("san")
    try:
        quick = tier == "quick"
        rng = core.rng("c10")
        env = dict(os.environ)
        env.update(b.env)
        env["LOCALE_FILE"] = os.path.join(b.root, "data", "locale")
        drv = b.driver("drv_safe", link_lib=True)
        # ---------------- models
        r = core.tlc_must_pass("Lex", "Lex.cfg" if quick else "LexThorough.cfg", workers=16, timeout=2400, heap="16g")
        rep.add_tlc("Lex (TokSafe, Progress over every byte-class string)", r)
        abstract = []
        for line in r.prints:
            j = core.parse_print(line)
            if j and "s" in j:
                abstract.append(j)
        r.prints = []
        o = core.tlc("Lex", "LexPinned.cfg", workers=2, keep_prints=False)
        if "TokSafe" not in o.violated:
            raise core.MachineryError("negative control failed: pinned tokeniser default branch not refuted")
        r = core.tlc_must_pass("Buf", "Buf.cfg" if quick else "BufThorough.cfg", workers=16, timeout=2400, heap="16g")
        rep.add_tlc("Buf (Within over every writer-class format and buffer size)", r)
        bufcases = []
        for line in r.prints:
            j = core.parse_print(line)
            if j and "f" in j:
                bufcases.append(j)
        r.prints = []
        o = core.tlc("Buf", "BufPinned.cfg", workers=2, keep_prints=False)
        if "Within" not in o.violated:
            raise core.MachineryError("negative control failed: unguarded writers not refuted")
        rep.notes["negative_controls"] = "LexPinned.cfg violates TokSafe, BufPinned.cfg violates Within, as required"
        if not abstract or not bufcases:
            raise core.MachineryError("models emitted nothing")
        # ---------------- the in-place escape processor behind -e (Unescape.tla): model-checked, then the real dt_io_unescape on exact-size
        # heap blocks under ASan, every string over the model's alphabet plus random byte strings, validated by UnescapeTrace.tla
        r = core.tlc_must_pass("Unescape", "Unescape.cfg" if quick else "UnescapeThorough.cfg", workers=16, timeout=1200, heap="8g")
        rep.add_tlc("Unescape (Safe, NoNul, Meaning, Finishes over every string of <= 5|6 characters)", r)
        o = core.tlc("Unescape", "UnescapeOff.cfg", workers=4, keep_prints=False)
        if "NoNul" not in o.violated:
            raise core.MachineryError("negative control failed: UnescapeOff.cfg does not violate NoNul")
        rep.notes["unescape_control"] = "UnescapeOff.cfg (table consulted for 'w') violates NoNul as required"
        udrv = b.driver("drv_unesc", link_lib=True, extra_flags=os.path.join(b.src, "libdutio.a"))
        ualpha = [92, 97, 99, 110, 118, 119, 96, 37]
        uins = [()]
        for n in range(1, (4 if quick else 5) + 1):
            uins += list(itertools.product(ualpha, repeat=n))
        for _ in range(3000 if quick else 30000):
            k = rng.randint(1, 40)
            uins.append(tuple(rng.choice((92, 92, 92, rng.randint(97, 122), rng.randint(1, 255))) for _ in range(k)))
        for c in range(1, 256):                       # every byte after a backslash, and alone
            uins += [(92, c), (c,), (37, 92, c, 92), (92, 92, c)]
        pu = subprocess.run([udrv], input=("\n".join(bytes(u).hex() for u in uins) + "\n").encode(), stdout=subprocess.PIPE, stderr=subprocess.PIPE, env=env, timeout=600)
        uouts = pu.stdout.decode().split("\n")
        if pu.returncode != 0:
            rep.disagree("dt_io_unescape: %s" % asan_key(pu.stderr.decode("latin-1")), {"rc": pu.returncode, "after": len(uouts) - 1,
                                                                                         "input": list(uins[min(len(uouts) - 1, len(uins) - 1)]), "report": pu.stderr.decode("latin-1")[-1500:]})
        uexecs = []
        for u, o_ in zip(uins, uouts[:-1] if pu.returncode != 0 else uouts):
            try:
                ob = list(bytes.fromhex(o_))
            except ValueError:
                ob = [0]
            uexecs.append([{"e": "Reset"}, {"e": "Unesc", "in": list(u), "out": ob, "n": len(u) + 1}])
        cc.validate_and_report(rep, "UnescapeTrace", "UnescapeTrace.cfg", uexecs, lambda bad, ex: "dt_io_unescape differs from Unescape.tla (meaning of an escaped string)", "unescape")
        rep.notes["unescape_calls"] = len(uexecs)
        # ---------------- library replay under ASan
        cmds, meta = [], []

        def add(c, m):
            cmds.append(c)
            meta.append(m)
        strs = []
        for ai, a in enumerate(abstract):
            for k in ((ai,) if quick else (ai, ai + 1, ai + 2)):
                strs.append((a, concretise(a["s"], k)))
        FIXED_IN = ["", "2012-03-04", "2012-03-04T10:20:30", "12", "x", "%", "2012-W10-4", "20120304", "10:20:30.123", "0-0-0", "-", "99999999999999999999", "\xff\xfe"]
        FIXED_FMT = ["%Y-%m-%d", "%F", "%FT%T", "%d %B %Y", "%dth %b %y", "%Y%m%d", "%s", "%H:%M:%S.%N", "%Y-W%V-%u", "%Y-%m-%db", "%OY %Om", "%a %_b", None]
        for a, s in strs:
            add("T " + hx(s), {"e": "Tok", "abs": a, "text": s})
        for i, (a, s) in enumerate(strs):
            # as format against fixed inputs; as input against fixed formats
            add("P %s %s" % (hx(s), hx(FIXED_IN[i % len(FIXED_IN)])), {"e": "Parse", "fmt": s, "str": FIXED_IN[i % len(FIXED_IN)]})
            add("P %s %s" % (hx(s), hx(FIXED_IN[(i // 7 + 1) % len(FIXED_IN)])), {"e": "Parse", "fmt": s, "str": FIXED_IN[(i // 7 + 1) % len(FIXED_IN)]})
            f = FIXED_FMT[i % len(FIXED_FMT)]
            add("P %s %s" % (hx(f), hx(s)), {"e": "Parse", "fmt": f, "str": s})
            add("%s %s %s" % ("PD" if i % 2 else "PT", hx(s), hx(FIXED_IN[(i // 3) % len(FIXED_IN)])), {"e": "Parse", "fmt": s, "str": FIXED_IN[(i // 3) % len(FIXED_IN)]})
            add("PU " + hx(s), {"e": "Parse", "fmt": "duration", "str": s})
            if i % 3 == 0:
                add("PU " + hx(s.replace("x", "d").replace("%", "+")), {"e": "Parse", "fmt": "duration", "str": s})
            # as format of the formatters, small buffers
            for bsz in (1, 2, 3, 5, 8, 11, 32)[(i % 3):: 3]:
                v = VALUES[(i + bsz) % len(VALUES)]
                add("%s %d %s %s" % (("F", "FD", "FT")[i % 3] if i % 5 else "F", bsz, hx(s), hx(v)), {"e": "Fmt", "fmt": s, "bsz": bsz, "val": v})
            if i % 4 == 0:
                add("FU %d %s %s" % (1 + i % 9, hx(s), hx(("3d", "1m2d", "5h", "-70s", "2y1mo")[i % 5])), {"e": "Fmt", "fmt": s, "bsz": 1 + i % 9, "val": "dur"})
        # input that ends inside a field: for every real token (alone, after a literal, and in the usual combinations) the text the tree's own
        # dconv prints for it is cut at EVERY position and parsed with the same format from an exact-size block -- a reader that
        # looks at or steps over bytes it has not seen traps here, and the end pointer must stay inside the prefix
        tfmts = [t for t in REAL_TOKS if t not in ("%", "x", "-")] + ["x" + t for t in REAL_TOKS if len(t) > 1] + [
            "%I:%M %p", "%I:%M%P", "%p %I", "%H:%M:%S.%N", "%d %b %Y", "%a, %d %B %Y", "%FT%T", "%Y-W%V-%u", "%Y-%m-%c-%w", "%G-W%V-%u %p", "%dth %B", "%b %dth, %Y",
            "%Y%m%d%H%M%S", "%OY-%Om-%Od", "%Y-%jth", "%s", "@%s", "%T %p", "%Q/%Y", "%Y-%m-%db", "%A %p", "%p%S", "%I%p%M"]
        dconv_t = b.tool("dconv")

        def texts(f):
            res = []
            for v in ("2012-03-06T22:11:12", "2003-11-30T09:05:00"):
                pr = core.run([dconv_t, "-f", f, v], timeout=10, env=env)
                t = pr.stdout.rstrip("\n")
                if pr.returncode == 0 and t and len(t) < 64 and all(" " <= ch_ <= "~" for ch_ in t):
                    res.append(t)
            return f, res
        ntrunc = 0
        with ThreadPoolExecutor(max_workers=core.NCPU) as ex:
            for f, ts in ex.map(texts, tfmts):
                for t in ts:
                    for cut in range(len(t) + 1):
                        for tail in ("",) if cut < len(t) else ("", "z"):
                            add("P %s %s" % (hx(f), hx(t[:cut] + tail)), {"e": "Parse", "fmt": f, "str": t[:cut] + tail})
                            ntrunc += 1
        rep.notes["truncated_inputs"] = ntrunc
        # Buf: every model (format, bsz) with real tokens of the class; plus all pairs of real tokens x every bsz
        for ci, c in enumerate(bufcases):
            f = "".join(CLASS_TOKS[x][(ci + i) % len(CLASS_TOKS[x])] for i, x in enumerate(c["f"]))
            add("F %d %s %s" % (c["b"], hx(f), hx(VALUES[ci % 2])), {"e": "Fmt", "fmt": f, "bsz": c["b"], "val": VALUES[ci % 2], "model": c["f"]})
        pairs = list(itertools.product(REAL_TOKS, repeat=2))
        if quick:
            pairs = pairs[::3]
        for pi, (t1, t2) in enumerate(pairs):
            f = t1 + t2
            for bsz in range(1, 24, 1 if not quick else 2):
                add("F %d %s %s" % (bsz, hx(f), hx(VALUES[pi % 3 * 0 + (0 if pi % 2 else 3)])), {"e": "Fmt", "fmt": f, "bsz": bsz, "val": "dt"})
        # long inputs / formats, field overflow
        for n in (15, 16, 17, 31, 32, 33, 63, 64, 65, 255, 256, 257, 1000, 5000):
            for ch in ("9", "x", "%", "%Y", " ", "M", "I"):
                s = (ch * n)[:n]
                add("P %s %s" % (hx("%Y-%m-%d"), hx(s)), {"e": "Parse", "fmt": "%Y-%m-%d", "str": s[:40]})
                add("P %s %s" % (hx(None), hx(s)), {"e": "Parse", "fmt": None, "str": s[:40]})
                add("P %s %s" % (hx(s), hx("2012-03-04")), {"e": "Parse", "fmt": s[:40], "str": "2012-03-04"})
                add("PU " + hx(s), {"e": "Parse", "fmt": "duration", "str": s[:40]})
                add("F %d %s %s" % (n, hx(s), hx(VALUES[0])), {"e": "Fmt", "fmt": s[:40], "bsz": n, "val": VALUES[0]})
                add("F %d %s %s" % (256, hx(s), hx(VALUES[0])), {"e": "Fmt", "fmt": s[:40], "bsz": 256, "val": VALUES[0]})
                add("T " + hx(s), {"e": "TokLong", "text": s[:40]})
        core.log("library replay: %d calls under ASan" % len(cmds))
        # shard over the cores
        n = core.NCPU
        idx = [list(range(k, len(cmds), n)) for k in range(n)]

        def shard(ix):
            return batch(drv, env, [cmds[i] for i in ix], label="lib")
        outs = [None] * len(cmds)
        with ThreadPoolExecutor(max_workers=n) as ex:
            for ix, res in zip(idx, ex.map(shard, idx)):
                for i, o_ in zip(ix, res):
                    outs[i] = o_
        events = []
        lit_events = []
        ncrash = nseen = 0
        for m, c, o_ in zip(meta, cmds, outs):
            if o_ is None:
                raise core.MachineryError("driver produced no answer for %s" % c[:80])
            if isinstance(o_, tuple):
                ncrash += 1
                key = ("hang in " + c.split()[0]) if o_[0] == "hang" else asan_key(o_[1])
                rep.disagree(key, {"call": c.split()[0], "fmt": repr(m.get("fmt"))[:120], "str": repr(m.get("str", m.get("text")))[:120], "bsz": m.get("bsz"),
                                   "report": o_[1][-1500:]})
                continue
            if m["e"] == "Tok":
                events.append({"e": "Tok", "s": m["abs"]["s"], "n": o_.get("n", -1), "end": o_.get("end", -1), "len": o_.get("len", -1), "text": m["text"]})
            elif m["e"] == "Parse":
                ev = {"e": "Parse", "used": o_.get("used", -1), "len": o_.get("len", -1), "fmt": repr(m["fmt"])[:60], "str": repr(m["str"])[:60]}
                nseen += 1
                if not (0 <= ev["used"] <= ev["len"]) or nseen % 29 == 0:
                    events.append(ev)
            elif m["e"] == "Fmt":
                ev = {"e": "Fmt", "ret": o_.get("ret", 10 ** 9), "bsz": o_.get("bsz", 0), "nul": o_.get("nul", 0), "fmt": repr(m["fmt"])[:60]}
                nseen += 1
                if ev["ret"] > ev["bsz"] or not ev["nul"] or nseen % 29 == 0:
                    events.append(ev)
        rep.count(evaluations=len(cmds), distinct=len(cmds))
        rep.notes["library_calls"] = len(cmds)
        rep.notes["library_crashes"] = ncrash
        # ---------------- the tools under ASan
        jobs = []
        hostile = [s for a, s in strs if len(s) >= 1]
        rng.shuffle(hostile)
        hostile = hostile[: 700 if quick else 6000]
        longs = ["x" * n for n in (250, 254, 255, 256, 257, 258, 300, 1000)] + ["x" * n + t for n in (246, 250, 252, 253, 254, 255) for t in ("%F", "%db", "%dth", "%Q", "%B", "%T", "%N", "%s", "%Z")]
        for s in hostile + longs:
            if "\x00" in s:
                continue
            jobs.append(("dconv", ["-f", s, "2012-03-06T10:11:12"], None, "format"))
            jobs.append(("dconv", ["-i", s, "2012-03-06"], None, "input format"))
        for s in hostile[:: 2] + longs[:8]:
            jobs.append(("dconv", ["--", s], None, "value"))
            jobs.append(("dconv", ["-S"], s + "\n", "stdin line"))
            jobs.append(("dconv", ["-i", "%d %B %Y", "-S"], s + " 4 March 2012 " + s + "\n", "stdin line"))
            jobs.append(("dadd", ["2012-03-06", "--", s], None, "duration"))
            jobs.append(("dadd", ["-f", s, "2012-03-06", "+1d"], None, "format"))
            jobs.append(("ddiff", ["-f", s, "2012-03-06T10:00:00", "2013-04-07T11:12:13"], None, "duration format"))
            jobs.append(("dgrep", ["--", s], "2012-03-06\n" + s + "\n", "expression"))
            jobs.append(("dgrep", ["-i", s, ">=2012-01-01"], "2012-03-06\n" + s + "\n", "input format"))
        for s in hostile[:: 5] + longs:
            jobs.append(("dround", ["-f", s, "2012-03-06T10:11:12", "+1d"], None, "format"))
            jobs.append(("dround", ["2012-03-06", "--", s], None, "round spec"))
            jobs.append(("dseq", ["-f", s, "2012-03-06", "2012-03-08"], None, "format"))
            jobs.append(("dseq", ["2012-03-06", s, "2012-03-08"], None, "increment"))
            jobs.append(("dtest", ["-i", s, "2012-03-06", "--lt", "2012-03-07"], None, "input format"))
            jobs.append(("dsort", ["-i", s], "b 2012-03-06\n" + s + "\na 2011-01-01\n", "input format"))
            jobs.append(("dzone", ["-f", s, "Europe/Berlin", "2012-03-06T10:11:12"], None, "format"))
            jobs.append(("strptime", ["-i", s, "-f", s, "2012-03-06"], None, "format"))
        # every modifier x specifier letter, alone and at the edge of the 256-byte line buffers, through every formatting tool
        modspecs = ["%" + m + c for m in ("", "_", "0", " ", "-", "r", "O", "_0", "-0", "O-") for c in "YymdjDwucCUVWGgqQaAbBhHIMSNpPTFsZ"]
        for s in modspecs:
            for pre in ("", "x" * 254, "x" * 250):
                jobs.append(("ddiff", ["-f", pre + s, "2012-01-01T00:00:00", "2012-03-01T01:02:03"], None, "duration format"))
                jobs.append(("ddiff", ["-f", pre + s + "|%d", "2012-03-01", "2012-01-01"], None, "duration format"))
                if pre != "x" * 250 or not quick:
                    jobs.append(("dconv", ["-f", pre + s, "2012-03-06T10:11:12"], None, "format"))
                    jobs.append(("dadd", ["-f", pre + s, "2012-03-06T10:11:12", "+1d"], None, "format"))
        # locale names: lines of the locale file itself (a data line is a whole line too), its last lines, hostile strings
        loclines = open(env["LOCALE_FILE"], encoding="utf-8", errors="replace").read().split("\n")
        cand = loclines[1:6] + loclines[-6:] + [loclines[5] + "x", "de_DE\n", "", "\t", "de_DE\tx"] + hostile[:40]
        for nm in cand:
            if "\0" in nm:
                continue
            jobs.append(("dconv", ["--locale", nm, "-f", "%A %B %a %b", "2012-05-05"], None, "locale name"))
            jobs.append(("dconv", ["--from-locale", nm, "-i", "%d %B %Y", "5 May 2012"], None, "locale name"))
            jobs.append(("dadd", ["--from-locale", nm, "--locale", nm, "-f", "%A", "2012-05-05", "+1d"], None, "locale name"))
        # sed mode on lines where values touch each other or the line start (the scanner's look-behind window must not leave the line):
        # whatever is matched, a run writes at most the line plus one output buffer per value, and no byte from outside the line
        adj = [("%H:%M:%S", "%T", ["1:15:00", "10:20:30"]), ("%d.%m.%Y", "%F", ["1.2.2012", "3.4.2013", "11.12.2014"]), ("%m/%d/%Y", "%F", ["1/2/2012", "11/30/2014"]),
               ("%-d-%b-%Y", "%F", ["1-Mar-2012", "21-Dec-2013"]), ("%Y-%m-%d", "%a", ["2012-03-04", "2013-12-31"]), ("%j/%Y", "%F", ["64/2012", "365/2013"])]
        for ifmt, ofmt, vals in adj:
            lines = []
            for a in vals:
                lines += [a, a + a, "x" + a, a + "x", a + " " + a]
                for b2 in vals:
                    lines += [a + b2, a + b2 + a, b2 + a + "\t" + a + b2]
            text = "\n".join(lines) + "\n"
            for tname, targs in (("dconv", ["-S", "-i", ifmt, "-f", ofmt]), ("dadd", ["-S", "-i", ifmt, "-f", ofmt, "+1d" if "H" not in ifmt else "+1h"]),
                                 ("dround", ["-S", "-i", ifmt, "-f", ofmt, "+1d" if "H" not in ifmt else "/1h"])):
                jobs.append((tname, targs, text, "sed mode, touching values"))
                jobs.append((tname, targs, text.replace("\n", "\r\n"), "sed mode, touching values"))
        # backslash escapes (-e): formats ending in a backslash or in an incomplete escape
        for s in ["abc\\", "\\", "%F\\", "a\\tb\\", "\\\\\\", "x\\q\\", "%Y\\n%m\\"] + [h for h in hostile[:60]]:
            jobs.append(("dconv", ["-e", "-f", s + ("\\" if not s.endswith("\\") else ""), "2012-03-06T10:11:12"], None, "escaped format"))
            jobs.append(("dadd", ["-e", "-f", s, "2012-03-06", "+1d"], None, "escaped format"))
            jobs.append(("dseq", ["-e", "-f", s, "2012-03-06", "2012-03-07"], None, "escaped format"))
        for s in ["abc\\", "\\", "a\\tb\\", "\\\\\\", "x\\q\\", "a\\nb", "\\a\\b\\e\\f\\r\\v", "tab\\t", "q\\", "a\\n", "\\n", "x\\n\\n"]:
            jobs.append(("dconv", ["-e", "-f", s, "2012-03-06T10:11:12"], None, "escaped literal"))
        for _ in range(60 if quick else 600):
            s = "".join(rng.choice("\\\\acnvw`Z") for _ in range(rng.randint(1, 8)))
            jobs.append(("dconv", ["-e", "-f", s, "2012-03-06T10:11:12"], None, "escaped literal"))
        # zone specifications: long but valid paths to a zone file, hostile names
        for n in (20, 40, 47, 48, 49, 60, 100, 101, 110, 115, 116, 117, 118, 200, 1000):
            z = "/usr/share/zoneinfo/" + "./" * n + "Europe/Berlin"
            jobs.append(("dzone", [z, "2012-03-06T10:11:12"], None, "zone name"))
            jobs.append(("dzone", ["--next", z, "2012-03-06T10:11:12"], None, "zone name"))
            jobs.append(("dzone", ["--prev", z, "Asia/Tokyo", "2012-03-06T10:11:12"], None, "zone name"))
            jobs.append(("dconv", ["--zone", z, "2012-03-06T10:11:12"], None, "zone name"))
            jobs.append(("dadd", ["--from-zone", z, "2012-03-06T10:11:12", "+1h"], None, "zone name"))
        for s in hostile[:: 9]:
            jobs.append(("dconv", ["--zone", s, "2012-03-06T10:11:12"], None, "zone name"))
            jobs.append(("dzone", ["--", s, "2012-03-06T10:11:12"], None, "zone name"))
        # stream lines: counts around the 16384-line limit of one chunk, long lines, missing final newline ("stream line" of the property)
        for nlines in (16383, 16384, 16385, 16386, 32769):
            for body, tail in (("2012-03-06", "\n"), ("2012-03-06 x", ""), ("x" * 70, "\n")):
                text = "\n".join([body] * nlines) + tail
                jobs.append(("dconv", ["-S"], text, "stream around the chunk line limit"))
                jobs.append(("dadd", ["-S", "+1d"], text, "stream around the chunk line limit"))
                jobs.append(("dgrep", [">=2012-01-01"], text, "stream around the chunk line limit"))
                if not quick:
                    jobs.append(("dround", ["-S", "+1d"], text, "stream around the chunk line limit"))
                    jobs.append(("dsort", [], text, "stream around the chunk line limit"))
        for ll in (4095, 4096, 4097, 65535, 65536, 65537, 1 << 20):
            text = "2012-03-06 " + "y" * ll + "\n2012-03-07\n"
            jobs.append(("dconv", ["-S"], text, "very long line"))
            jobs.append(("dgrep", [">=2012-01-01"], text, "very long line"))
        # durations with many components: the collectors grow their arrays as components arrive (every growth boundary up to 80, then powers of two)
        for n in list(range(1, 81)) + [95, 96, 97, 127, 128, 129, 255, 256, 257, 1000]:
            if quick and n > 20 and n % 16 not in (15, 0, 1, 2) and n not in (95, 97, 127, 129, 1000):
                continue
            comp = ["+1d", "+1w", "-1d", "+2d"]
            toks = [comp[i % 4] if n % 2 else "+1d" for i in range(n)]
            jobs.append(("dadd", ["2012-03-06"] + toks, None, "many duration components"))
            jobs.append(("dadd", ["2012-03-06", "".join(toks)], None, "many duration components"))
            jobs.append(("dadd", toks, "2012-03-06\n2012-03-07\n", "many duration components"))
            jobs.append(("dadd", ["2012-03-06T10:00:00"] + [t + ("" if i % 3 else "1h") for i, t in enumerate(toks)], None, "many duration components"))
            jobs.append(("dseq", ["2012-03-06", "".join(t.lstrip("+-") for t in toks).replace("1w", "7d"), "2014-03-06"], None, "many duration components"))
            jobs.append(("dround", ["2012-03-06"] + ["Mon" if i % 2 else "+1d" for i in range(n)], None, "many duration components"))
            jobs.append(("dround", ["-S"] + ["/1h" if i % 2 else "/30m" for i in range(n)], "x 2012-03-06T10:11:12 y\n", "many duration components"))
        # duration lines on stdin (the date on the command line): counts that do not fit, with more text behind them on the line, between
        # good lines -- what the parser kept from a refused line must not reach the next one (it points into the line buffer)
        ovf = ["3000000000 5d", "99999999999999999999d 2d", "2147483648d 7d", "-3000000000 1w", "4294967296d1d", "1d 99999999999d 3d", "9223372036854775808s 1d"]
        good = [("1d", 1), ("2d", 2), ("1w", 7), ("-1d", -1), ("10d", 10), ("3d", 3)]
        for rep_ in (1, 400, 5000):
            if quick and rep_ == 5000:
                continue
            lines_, want_ = [], []
            for i in range(rep_ * len(ovf)):
                lines_.append(ovf[i % len(ovf)])
                g = good[i % len(good)]
                lines_.append(g[0])
                want_.append((datetime.date(2012, 1, 1) + datetime.timedelta(days=g[1])).isoformat())
            for sedm in ([], ["-S"]):
                jobs.append(("dadd", sedm + ["2012-01-01"], "\n".join(lines_) + "\n", "duration lines on stdin\0" + "\n".join(want_ if not sedm else [x for pair in zip([o for o in lines_[::2]], want_) for x in pair])))
        jobs = [j for j in jobs if os.path.exists(b.tool(j[0]))]

        def tool_job(j):
            tool, argv, stdin, role = j
            try:
                p = subprocess.run([b.tool(tool)] + [a.encode("latin-1") for a in argv], input=(stdin or "").encode("latin-1"), stdout=subprocess.PIPE,
                                   stderr=subprocess.PIPE, timeout=60, env=env)
                rc, err, outlen = p.returncode, p.stderr.decode("latin-1", "replace"), len(p.stdout)
            except subprocess.TimeoutExpired:
                rc, err, outlen = 124, "", 0
                return tool, argv, stdin, role, rc, err, b""
            except (ValueError, OSError) as x:
                return None
            return tool, argv, stdin, role, rc, err, (p.stdout if rc != 124 else b"")
        nrun = 0
        with ThreadPoolExecutor(max_workers=core.NCPU) as ex:
            for res in ex.map(tool_job, jobs):
                if res is None:
                    continue
                tool, argv, stdin, role, rc, err, out = res
                nrun += 1
                if role.startswith("duration lines on stdin"):
                    role, want_text = role.split("\0", 1)
                    if rc not in (99, 124) and 0 <= rc < 128 and out.decode("latin-1") != want_text + "\n":
                        ol, wl = out.decode("latin-1").split("\n"), want_text.split("\n")
                        k_ = next((i for i in range(min(len(ol), len(wl))) if ol[i] != wl[i]), min(len(ol), len(wl)))
                        rep.disagree("dadd duration lines on stdin: an accepted line's result depends on a refused line before it",
                                     {"argv": argv, "first_difference_at_output_line": k_, "got": ol[k_:k_ + 2], "want": wl[k_:k_ + 2], "lines": len(wl)})
                bad = rc == 99 or rc == 124 or rc < 0 or rc >= 128
                if role == "sed mode, touching values" and not bad:
                    nin = (stdin or "").count("\n")
                    if b"\0" in out or len(out) > len(stdin or "") + 256 * 4 * max(1, nin) or out.count(b"\n") != nin:
                        rep.disagree("%s %s: output is not the input lines with values replaced (NUL bytes, size or line count)" % (tool, role),
                                     {"argv": [repr(a) for a in argv], "in_bytes": len(stdin or ""), "out_bytes": len(out), "in_lines": nin, "out_lines": out.count(b"\n"),
                                      "nul": b"\0" in out, "rc": rc})
                if role == "many duration components" and not bad and tool == "dadd" and argv[0] == "2012-03-06" and rc == 0:
                    toks = argv[1:] if len(argv) > 2 else re.findall(r"[+-]\d+[dw]", argv[1])
                    days = sum(int(t[:-1]) * (7 if t[-1] == "w" else 1) for t in toks)
                    want = (datetime.date(2012, 3, 6) + datetime.timedelta(days=days)).isoformat() + "\n"
                    if out.decode("latin-1") != want:
                        rep.disagree("dadd many duration components: the sum of the components is not applied", {"n": len(toks), "stdout": repr(out[:60]), "want": want.strip()})
                if role == "escaped literal" and not bad:
                    # the argv block is contiguous stack memory: a read past the terminator of the format is not a sanitizer event
                    # there, but it shows in the output, which must be the unescaped literal alone
                    want = unescape(argv[2])
                    want += "" if want.endswith("\n") else "\n"          # the tools' auto-newline: none is added after a value that ends in one
                    lit_events.append({"e": "Lit", "in": list(argv[2].encode("latin-1")), "out": list(out)})
                    if out != want.encode("latin-1"):
                        rep.disagree("%s %s: output is not the unescaped literal (format read beyond its end?)" % (tool, role),
                                     {"argv": [repr(a) for a in argv], "stdout": repr(out[:80]), "want": repr(want), "rc": rc})
                if bad:
                    key = "%s %s: %s" % (tool, role, "timeout" if rc == 124 else asan_key(err))
                    rep.disagree(key, {"tool": tool, "argv": [repr(a)[:150] for a in argv], "stdin": repr(stdin)[:150] if stdin else None, "rc": rc, "report": err[-1500:]})
                if bad or nrun % 37 == 0:
                    events.append({"e": "Run", "tool": tool, "role": role, "rc": rc if rc >= 0 else 128 - rc, "argv": [repr(a)[:40] for a in argv][:4]})
        rep.count(evaluations=nrun, distinct=nrun)
        rep.notes["tool_runs"] = nrun
        core.log("tools: %d runs under ASan" % nrun)
        cc.validate_and_report(rep, "UnescapeTrace", "UnescapeTrace.cfg", [[{"e": "Reset"}, e] for e in lit_events if 0 not in e["out"]],
                               lambda bad, ex: "dconv escaped literal: output is not the unescaped literal (format read beyond its end?)", "unescape_literal")
        # ---------------- validate the recorded events: tokeniser conformance with Lex, bounds of every call
        execs = [[{"e": "Reset"}, e] for e in events]

        def key(bad, ex):
            e = bad.get("e")
            if e == "Tok":
                return "tokeniser differs from Lex.tla (token count / end offset)"
            if e == "Parse":
                return "parser end pointer outside the input"
            if e == "Fmt":
                return "formatter returns more than the buffer holds or leaves the text unterminated"
            return "run: %s %s" % (bad.get("tool"), bad.get("role"))
        # crashes are keyed above from the sanitizer report; here only events of calls that returned
        # crashed / hung runs are keyed above from the sanitizer report; SafeTrace sees the calls that returned
        cc.validate_and_report(rep, "SafeTrace", "SafeTrace.cfg", [ex for ex in execs if ex[1]["e"] != "Run" or ex[1]["rc"] in (0, 1, 2, 3)], key, "safe_event",
                               group=lambda ex: ex[1]["e"], per_group_reject=12)
        rep.cov["rule"] = ("library: one case = one call of __tok_spec loop / dt_strpdt / dt_strpd / dt_strpt / dt_strpdtdur / dt_strfdt / dt_strfd / dt_strft / dt_strfdtdur "
                           "with exact-size heap blocks under ASan+bounds; inputs = every byte-class string of <= 4|5 positions (13 classes) concretised 1|3 ways, as "
                           "format and as text, buffers 1..32; every Buf (format, bsz); pairs of 56 real tokens x bsz 1..23; runs of 15..5000 identical bytes; "
                           "tools: 10 tools x roles (value, -f, -i, stdin line, duration, expression, round spec, increment) on 700|6000 hostile strings + formats "
                           "of 246..258 bytes ending in a specifier")
        rep.assumptions += ["memory safety is observed by clang ASan + -fsanitize=bounds (exit 99), not proved; strings are NUL-terminated C strings (no embedded NUL)",
                            "an assertion failure of the library is counted as a violation of totality (abnormal termination)",
                            "'reported as such' is checked as: parser end pointer within the input and no out-of-bounds read; which texts are dates is C09's subject"]
        return rep.finish()
    finally:
        b.close()


def replay(path):
    print(open(path).read())
    return 0
