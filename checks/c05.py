"""C05 -- datediff is the inverse of dateadd.
Spec: DateArith.tla gives dateadd its meaning (months/years in one step keeping the day, day/week index arithmetic,
model-checked, bound to dadd by C03/C04); Biz.tla the business-day step.  DiffTrace.tla applies those semantics to the
components ddiff printed: Apply(earlier, printed duration) must be the later value, the sign must say which operand is
earlier, and ddiff B A must be ddiff A B with the sign flipped.  The real ddiff is run on all ordered pairs of point
sets (boundary windows, month ends, leap days, far pairs; times with every borrow) for every duration format that goes
down to the finest unit needed; month/year formats only with an earlier day-of-month <= 28."""
import datetime
from vlib import core, chain as chainmod, caldrv
from checks import calcommon as cc
from checks import diffcommon as dc

PID = "C05"
DATE_FORMATS = [["d"], ["w", "d"], ["m", "d"], ["Y", "m", "d"], ["Y", "d"], ["Y", "w", "d"], ["Y", "m", "w", "d"], ["b"]]
# month/year formats are claimed for pairs of dates only (property text); date-times get the fixed-length units
DT_FORMATS = [["S"], ["M", "S"], ["H", "M", "S"], ["d", "H", "M", "S"], ["w", "d", "H", "M", "S"], ["d", "S"], ["w", "S"], ["H", "S"]]


def is_leap(y):
    return y % 4 == 0 and (y % 100 != 0 or y % 400 == 0)


def yd_cell(a, bb, comps):
    """the cell of the year/day difference's leap-day matrix a pair falls in, and by how many days the printed duration is off"""
    e, l = (a, bb) if (a["ldn"], a["sod"]) <= (bb["ldn"], bb["sod"]) else (bb, a)

    def pos(p):
        k = (p["m"], p["d"])
        return ("L" if is_leap(p["y"]) else "N") + ("<" if k < (2, 29) else "=" if k == (2, 29) else ">")
    yrs = l["y"] - e["y"] - (1 if (l["m"], l["d"]) < (e["m"], e["d"]) else 0)
    try:
        days = l["ldn"] - (datetime.date(e["y"] + yrs, e["m"], e["d"]) - datetime.date(e["y"], e["m"], e["d"])).days - e["ldn"]
        err = "years" if comps.get("Y") != yrs else "%+dd" % (comps.get("d", 0) - days)
    except (ValueError, TypeError):
        err = "?"
    return "earlier %s later %s error %s" % (pos(e), pos(l), err)


def main(tier):
    rep = core.Report(PID, tier, "model_checking")
    b = core.Build("plain")
    try:
        quick = tier == "quick"
        rng = core.rng("c05")
        r = core.tlc_must_pass("DateArith", "DateArith.cfg", timeout=1500, heap="12g", keep_prints=False)
        rep.add_tlc("DateArith (the meaning of applying a duration: Compose, DayExact, KeepDay, Valid)", r)
        r = core.tlc_must_pass("Biz", "Biz.cfg", keep_prints=False)
        rep.add_tlc("Biz (business-day step by counting = closed form, Inverse)", r)
        ch = chainmod.Chain()
        rep.notes["chain"] = {"source": "TLC run of spec/Calendar.tla (cached by spec hash)", **ch.meta}
        ddiff = b.tool("ddiff")
        execs = []
        nrun = 0
        nsets = 3 if quick else 25
        for si in range(nsets):
            # a point set: a cluster around a boundary day + far points; days <= 28 dominate so that month formats apply
            centre = rng.choice(chainmod.boundary_ldns(None, width=2))
            centre = min(max(centre, chainmod.LDN_1601 + 2000), caldrv.TAIL_FIRST - 2000)
            ls = set()
            while len(ls) < (26 if quick else 40):
                k = rng.random()
                if k < 0.5:
                    ls.add(centre + rng.randrange(-70, 70))
                elif k < 0.8:
                    ls.add(centre + rng.randrange(-800, 800))
                else:
                    ls.add(rng.randrange(chainmod.LDN_1601 + 10, caldrv.TAIL_FIRST - 10))
            if si == 0:
                # a fixed set around leap days, year ends and ISO week 52/53 boundaries: the borrows of every duration type
                fixed = ["2012-01-27", "2012-02-28", "2012-02-29", "2012-03-01", "2012-12-31", "2013-01-01", "2013-01-25", "2013-01-27",
                         "2013-02-28", "2013-03-01", "2011-03-01", "2011-12-31", "2083-01-03", "2084-01-07", "2015-12-28", "2016-01-03",
                         "2016-02-29", "2016-12-31", "2017-01-01", "2000-02-29", "2001-02-28", "1900-02-28", "1900-03-01", "2100-02-28",
                         "2100-03-01", "2400-02-29", "2011-11-20", "2012-03-10", "2012-06-15"]
                ls = set(ch.ldn_of(*map(int, x.split("-"))) for x in fixed)
            ls = sorted(ls)
            # fixed-length units must not depend on the notation the operands are written in: the same points as ISO week dates,
            # ordinal dates and n-th-weekday dates (these reach the day count through other conversion routines than ymd does)
            variants = [(False, DATE_FORMATS, None), (True, DT_FORMATS, None)]
            for nota in ("ywd", "yd", "ymcw"):
                variants.append((False, [["d"], ["w", "d"], ["b"]] if (si + len(nota)) % 2 or not quick else [["d"]], nota))
            if si == 0 or not quick:
                variants.append((False, [["d"], ["b"]] if quick else [["d"], ["w", "d"], ["b"]], "bizda"))
            if si == 0:
                # the year/day format's leap-day correction is a matrix over (leap year?, before / on / after 29 Feb) of both operands: every cell
                variants.append((False, [["Y", "d"]], "ydcells"))
            for with_time, formats, nota in variants:
                pts = [dc.point(ch, l, rng.choice([0, 1, 43199, 43200, 86399]) if with_time else 0) for l in ls]
                if nota and si == 0:
                    # the fixed set is about borrows; for notations what matters are pairs far apart and across century years
                    pts = [dc.point(ch, l, 0) for l in sorted(set(ch.ldn_of(y, mo, d) for y in (1700, 1899, 1900, 2000, 2100, 2399, 2400, 2401, 2800, 2801, 3200, 3201, 4000)
                                                                 for mo, d in ((1, 1), (3, 1), (12, 31))))]
                if nota == "ydcells":
                    nota = None
                    pts = [dc.point(ch, ch.ldn_of(y, mo, d), 0) for y in (1896, 1900, 2000, 2007, 2008, 2011, 2012, 2015, 2016, 2020, 2096, 2100, 2104)
                           for mo, d in ((1, 15), (2, 28), (2, 29), (3, 1), (3, 5), (7, 4), (12, 28)) if not (mo == 2 and d == 29 and not is_leap(y))]
                if nota == "bizda":
                    # business-day dates reach the day count through per-year-type tables: business days spread over all fourteen year types
                    if si == 0:
                        pts = [dc.point(ch, l, 0) for l in range(ch.ldn_of(1996, 1, 2), ch.ldn_of(2033, 1, 1), 97 if quick else 41)]
                    pts = [p for p in pts if p["wd"] <= 5]
                tf = (lambda p, nota=nota: cc.fmt_row(nota, ch.row(p["ldn"]))) if nota else None
                xa = ["-i", cc.INFMT[nota]] if nota else []
                for units in formats:
                    res, bad = dc.run_matrix(ddiff, pts, with_time, units, textfn=tf, extra_args=xa)
                    nrun += len(pts)
                    for i, n, rc in bad:
                        rep.disagree("ddiff %s: wrong number of output lines" % "".join(units), {"A": dc.text(pts[i], with_time), "lines": n, "rc": rc})
                    for i in range(len(pts)):
                        for j in range(i + 1, len(pts)):
                            if (i, j) not in res or (j, i) not in res:
                                continue
                            a, bb = pts[i], pts[j]
                            earlier = a if (a["ldn"], a["sod"]) <= (bb["ldn"], bb["sod"]) else bb
                            if ("m" in units or "Y" in units) and earlier["d"] > 28:
                                continue
                            if "b" in units and (a["wd"] > 5 or bb["wd"] > 5):
                                continue
                            if with_time and abs(a["ldn"] - bb["ldn"]) > 24000 and units[0] in "SMH":
                                continue        # keeps the seconds inside 32 bits for TLC; far pairs are covered with d/w/Y formats
                            p1, p2 = dc.parse(res[(i, j)], units), dc.parse(res[(j, i)], units)
                            dead = {u: -1 for u in dc.UNITS}
                            execs.append([{"e": "Diff", "cmd": "ddiff %s%s %s -f '%s'" % ("-i '%s' " % cc.INFMT[nota] if nota else "", (tf or (lambda p: dc.text(p, with_time)))(a),
                                                                                  (tf or (lambda p: dc.text(p, with_time)))(bb), dc.fmt_of(units)),
                                           "fmt": "".join(units) + ("/" + nota if nota else ""), "cal": "ywd" if ("Y" in units and "w" in units and "m" not in units) else "greg", "a": a, "b": bb,
                                           "comps": p1[0] if p1 else dead, "neg": bool(p1 and p1[2]), "out": res[(i, j)],
                                           "rcomps": p2[0] if p2 else dead, "rneg": bool(p2 and p2[2]), "rout": res[(j, i)]}])
        rep.notes["tool_runs"] = nrun

        def key(bad, ex):
            a, bb = bad["a"], bad["b"]
            span = abs(a["ldn"] - bb["ldn"])
            what = "antisymmetry" if bad.get("comps") != bad.get("rcomps") else "apply-or-sign"
            if bad.get("fmt") == "Yd":
                # one key per cell of __yd_diff's correction matrix and per size of the error, so that a recorded cell does not cover another one
                return "ddiff format Yd: %s, %s" % (what, yd_cell(a, bb, bad.get("comps") or {}))
            return "ddiff format %s%s: %s" % (bad.get("fmt"), " (date-times)" if a["sod"] or bb["sod"] else "", what)
        def grp(ex):
            e = ex[0]
            if e["fmt"] == "Yd":
                # validation stops keying a class after a few rejections: pairs of the year/day format are classed by matrix cell and size of
                # the error beforehand (scheduling only -- acceptance is still DiffTrace's), so that every failing cell gets its own key
                c = yd_cell(e["a"], e["b"], e.get("comps") or {})
                if not c.endswith("error +0d") or e.get("comps") != e.get("rcomps"):
                    return "Yd " + c + (" antisym" if e.get("comps") != e.get("rcomps") else "")
            return e["fmt"] + ("T" if e["a"]["sod"] or e["b"]["sod"] else "")
        cc.validate_and_report(rep, "DiffTrace", "DiffTrace.cfg", execs, key, "ddiff_pair", group=grp)
        rep.cov["rule"] = ("one trace = one ordered pair (A, B) x duration format: ddiff A B and ddiff B A; point sets: 3|25 clusters of 26|40 days "
                           "(boundary windows +-70, +-800 days, seeded far days), all ordered pairs; formats: d, w d, m d, Y m d, Y d, Y w d, Y m w d, "
                           "business days, and for date-times S, M S, H M S, d H M S, w d H M S, d S, Y m d H M S, m d S")
        rep.assumptions += ["month/year formats are judged only when the earlier value's day-of-month is <= 28 (the property's restriction)",
                            "business-day format only for pairs of business days (weekend starts: see the C07 finding)",
                            "DT_DURYMCW is unreachable from the ddiff tool and not judged"]
        return rep.finish()
    finally:
        b.close()


def replay(path):
    print(open(path).read())
    return 0
