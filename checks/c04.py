"""C04 -- month and year arithmetic keeps the day and clamps to the end of month.
Spec: DateArith.tla (lazy clamp; Compose, KeepDay, Valid; eager clamp as negative control).
A: every day x k months (-30..30) / years (-12..12) x {ymd, ymcw, bizda, ywd, yd} against MonthAdd/ClampDay on the
chain, incl. composition +a;+b = +(a+b) without an intermediate print; every DateArith state through dadd.
B: dadd tool runs with two month/year durations in ymcw / ywd / bizda / yd notation validated by CalendarTrace."""
from vlib import core, chain as chainmod, caldrv
from checks import calcommon as cc

PID = "C04"


def mlen(y, m):
    return [31, 29 if (y % 4 == 0 and (y % 100 != 0 or y % 400 == 0)) else 28, 31, 30, 31, 30, 31, 31, 30, 31, 30, 31][m - 1]


def cli_compose(rep, b, ch, ldns, rng):
    """dadd START +a +b in ymd notation: expected target from MonthAdd + ClampDay computed on chain fields"""
    execs = []
    tool = b.tool("dadd")
    combos = [((3, "mo"), (-1, "mo")), ((1, "mo"), (1, "mo")), ((-13, "mo"), (1, "y")), ((1, "y"), (5, "y")), ((4, "y"), (-4, "y")),
              ((1, "y"), (3, "mo")), ((-1, "y"), (-27, "y")), ((11, "mo"), (1, "mo")), ((1, "q"), (3, "q")),
              ((-1, "mo"), (2, "mo")), ((-1, "y"), (5, "y")), ((-2, "q"), (1, "q")), ((-1, "mo"), (13, "mo"))]
    nrun = 0
    for kind in ("ymd",):
        for (a, ua), (bb, ub) in combos:
            tot = sum(k * {"mo": 1, "y": 12, "q": 3}[u] for k, u in ((a, ua), (bb, ub)))
            rows = []
            for l in ldns:
                r = ch.row(l)
                t = r[1] * 12 + r[2] - 1 + tot
                y, m = t // 12, t % 12 + 1
                if 1602 <= y <= 4094:
                    rows.append((r, y, m, min(r[3], mlen(y, m))))
            inp = "".join(cc.fmt_row(kind, r) + "\n" for r, _, _, _ in rows)
            # positive counts written with and without their plus sign (a sign belongs to its own argument only)
            for plus in ("+", ""):
                t1, t2 = ("%s%d%s" % (plus if a > 0 else "", a, ua), "%s%d%s" % (plus if bb > 0 else "", bb, ub))
                if plus == "" and a < 0 and bb < 0:
                    continue
                rc, lines, err = cc.tool_lines(tool, ["--", t1, t2] if t1.startswith("-") else [t1, t2], inp)
                nrun += 1
                if len(lines) != len(rows):
                    rep.disagree("cli dadd %s %s: %d lines for %d inputs" % (t1, t2, len(lines), len(rows)), {"stderr": err[:200]})
                    continue
                for (r, y, m, d), got in zip(rows, lines):
                    execs.append([{"e": "Reset", "y": y, "m": m, "d": d},
                                  {"e": "Txt", "src": "dadd %s %s" % (t1, t2), "in": cc.fmt_row(kind, r), "txt": {"F": got}}])
    rep.notes["tool_runs"] = rep.notes.get("tool_runs", 0) + nrun
    return execs


def main(tier):
    rep = core.Report(PID, tier, "model_checking")
    b = core.Build("plain")
    try:
        ch = chainmod.Chain()
        rep.notes["chain"] = {"source": "TLC run of spec/Calendar.tla (cached by spec hash, regenerated when stale)", **ch.meta}
        drv = b.driver("drv_cal", link_lib=True)
        quick = tier == "quick"
        beh = cc.datearith_behaviours(rep, "DateArith.cfg" if quick else "DateArithThorough.cfg")
        cc.replay_datearith(rep, b, beh, {"mo", "y", "d", "w"}, "datearith")
        plan = [dict(mode="addm", step=1, args=(30, 12) if quick else (60, 40))]
        cc.run_plan(rep, b, ch, drv, plan)
        bnd = chainmod.boundary_ldns(core.rng("c04"), width=40)
        # days 28..31 and the surrounding month ends are where the clamp matters: take all of them from the windows
        sample = [l for l in bnd if ch.get(l, "d") >= 28 or ch.get(l, "d") == 1][:: 6 if quick else 1]
        ex = cli_compose(rep, b, ch, sample, core.rng("c04"))
        cc.validate_and_report(rep, "CalendarTrace", "CalendarTrace.cfg", ex,
                               lambda bad, e: "cli %s" % bad.get("src", "?"), "dadd_execution")
        rep.cov["rule"] = ("A: one case = (day, notation in {ymd,ymcw,bizda,ywd,yd}, signed month or year count) on EVERY day, plus the same "
                           "count split into two steps without a print in between; every DateArith state (start, <=2|3 ops) through dadd; "
                           "B: dadd START +a +b runs (months, quarters, years, mixed) validated by CalendarTrace")
        rep.cov["exhaustive"] = True
        rep.assumptions += ["results outside 1601..4095 are not judged",
                            "ymcw clamp = last existing count of that weekday; ywd clamp = last ISO week of the target year; yd clamp = last day of year"]
        return rep.finish()
    finally:
        b.close()


def replay(path):
    print(open(path).read())
    return 0
