"""zone scenarios shared by C12 / C13 / C19: query histories on real and synthetic TZif files, executed by drv_zone,
rank-compressed into ZoneTrace executions"""
import os, random
from vlib import core, tzif
from vlib.zonedrv import LineDriver

Y4095 = 67_000_000_000       # an instant in year 4093: far beyond every table
TENY = 315_576_000


def query_instants(z, rng, per_tr=True, extra=6):
    """instants of interest for table z: every transition -1/0/+1, both table ends, far future, a few seeded ones"""
    q = set()
    for t in z.trs:
        q.update((t - 1, t, t + 1))
    if z.trs:
        first, last = z.trs[0], z.trs[-1]
        q.update((first - 1, first - 86400 * 400, last + 1, last + TENY, Y4095))
        lo, hi = first, max(last, first + 1) + TENY
        for _ in range(extra):
            q.add(rng.randrange(lo, hi))
    else:
        q.update((-1, 0, 1, 1_000_000_000, Y4095))
    q = {t for t in q if -(2 ** 46) < t < 2 ** 46}
    return sorted(q)


def local_instants(z, rng):
    """zone-local times around both sides of every transition (for zif_utc_time)"""
    q = set()
    for i, t in enumerate(z.trs):
        if i == 0:
            continue
        o1, o2 = z.ofs[z.typ[i - 1]], z.ofs[z.typ[i]]
        for o in (o1, o2):
            q.update((t + o - 1, t + o, t + o + 1))
        q.add(t + (o1 + o2) // 2)
    if z.trs:
        lo = z.trs[0] + 2 * 86400
        q = {l for l in q if l >= lo}
        q.add(z.trs[-1] + TENY)
    return sorted(q)


def histories(z, rng, orders=("asc", "desc", "shuf"), with_utc=True, with_rng=True, cap=None):
    """list of query histories; a history is a list of ('L'|'U'|'R', value)"""
    qs = query_instants(z, rng)
    if cap and len(qs) > cap:
        # keep both ends and a seeded sample of the middle
        keep = set(qs[:cap // 4] + qs[-cap // 4:])
        keep.update(rng.sample(qs, cap // 2))
        qs = sorted(keep)
    hs = []
    for o in orders:
        if o == "asc":
            s = list(qs)
        elif o == "desc":
            s = list(reversed(qs))
        else:
            s = list(qs)
            rng.shuffle(s)
        h = [("L", t) for t in s]
        hs.append(h)
    if with_rng and qs:
        s = list(qs)
        rng.shuffle(s)
        hs.append([("R", t) for t in s])
    if with_utc:
        ls = local_instants(z, rng)
        if cap and len(ls) > cap:
            ls = sorted(rng.sample(ls, cap))
        if ls:
            s = list(ls)
            rng.shuffle(s)
            # interleave with forward lookups so that the cache is in every possible state
            h = []
            for l in s:
                h.append(("U", l))
                if rng.random() < 0.3 and qs:
                    h.append(("L", rng.choice(qs)))
            hs.append(h)
    return hs


class ZoneRunner:
    """runs histories on the real code; returns ZoneTrace executions + hang/crash keys"""

    def __init__(self, drvpath, rep, env=None):
        self.drv = LineDriver(drvpath, timeout=1.0, env=env)
        self.rep = rep
        self.nq = 0
        self.skipped = 0
        self.hang_keys = {}

    def close(self):
        self.drv.close()

    def run(self, path, z, hist, label):
        """one history on a fresh handle -> execution (list of events) or None if the file cannot be opened"""
        d = self.drv
        d.set_preamble([])
        r = d.cmd("O " + path)
        if r in ("hang", "crash") or not isinstance(r, dict) or not r.get("ok"):
            self.rep.disagree("zif_open fails on %s" % label, {"file": path, "answer": r})
            return None
        d.set_preamble(["O " + path])
        raw = []            # (kind, arg, result dict)
        for kind, v in hist:
            # hang budget: a class that hung 3 times is not exercised again; after 20 hangs nothing more is scheduled
            cls0 = self.classify_hang(z, kind, v)
            if self.hang_keys.get(cls0, [0])[0] >= 3 or d.hangs >= 20:
                self.skipped += 1
                continue
            self.nq += 1
            r = d.cmd("%s %d" % (kind, v))
            if r == "hang":
                cls = self.classify_hang(z, kind, v)
                k = self.hang_keys.setdefault(cls, [0, {"zone": label, "query": kind, "arg": v}])
                k[0] += 1
                # the handle was re-opened by the preamble: history continues on a fresh cache -> cut the execution here
                break
            if r == "crash":
                self.rep.disagree("crash in zone lookup", {"zone": label, "query": kind, "arg": v, "stderr": d.stderr_tail[-600:]})
                break
            raw.append((kind, v, r))
        return compress(z, raw, label)

    def classify_hang(self, z, kind, v):
        if z.trs and v == z.trs[-1]:
            return "hang lookup at the last listed transition instant"
        if z.trs and v > z.trs[-1]:
            return "hang lookup after the last transition"
        if z.trs and v < z.trs[0]:
            return "hang lookup before the first transition"
        return "hang lookup inside the table"

    def flush_hangs(self):
        for cls, (n, first) in self.hang_keys.items():
            self.rep.disagree(cls, dict(first, occurrences=n))


def compress(z, raw, label):
    """rank-compress the 64-bit instants of one execution (order isomorphism) and build ZoneTrace events"""
    vals = set(z.trs)
    dist_ofs = sorted(set(z.ofs))
    for kind, v, r in raw:
        if kind == "L":
            vals.add(v)
        elif kind == "U":
            u = int(r["u"])
            vals.add(u)
            for o in dist_ofs:
                vals.add(v - o)
        elif kind == "R":
            vals.add(v)
            p, n = int(r["prev"]), int(r["next"])
            vals.update((p, n))
    order = sorted(vals)
    rank = {v: i + 1 for i, v in enumerate(order)}
    SMIN, SMAX = -140737488355328, 140737488355327
    ev = [{"e": "Reset", "zone": label, "trs": [rank[t] for t in z.trs], "typ": list(z.typ), "ofs": list(z.ofs)}]
    for kind, v, r in raw:
        if kind == "L":
            ev.append({"e": "Local", "t": rank[v], "off": clamp32(int(r["r"]) - v), "T": str(v)})
        elif kind == "U":
            u = int(r["u"])
            ev.append({"e": "Utc", "u": rank[u], "off": clamp32(v - u), "cands": [[o, rank[v - o]] for o in dist_ofs], "L": str(v)})
        elif kind == "R":
            p, n = int(r["prev"]), int(r["next"])
            ev.append({"e": "Rng", "t": rank[v], "prev": -1 if p <= SMIN else rank[p], "next": -2 if n >= SMAX else rank[n],
                       "off": int(r["offs"]), "T": str(v)})
    return ev


def clamp32(x):
    return max(-2 ** 31 + 1, min(2 ** 31 - 1, x))


def reject_key(bad, ex, z_by_label):
    """canonical key of a rejected ZoneTrace event: what kind of query, where in the table"""
    e = bad.get("e")
    zone = ex[0].get("zone") if ex else "?"
    z = z_by_label.get(zone)
    where = "?"
    try:
        t = int(bad.get("T") or bad.get("L") or 0)
        if z and z.trs:
            if t < z.trs[0]:
                where = "before-first"
            elif t in z.trs:
                where = "at-transition" + ("-last" if t == z.trs[-1] else "")
            elif t > z.trs[-1]:
                where = "after-last"
            else:
                where = "inside"
            idx = sum(1 for x in z.trs if x <= t)
            if idx > 255:
                where += "-index>255"
            if t < 0:
                where += "-negative"
    except Exception:
        pass
    return "zone %s %s" % (e, where)
