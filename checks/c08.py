"""C08 -- comparison is the chronological total order; sorting respects it.
Spec: Order.tla -- Cmp(a,b) = sgn(position a - position b) on <<day, second-of-day>> values is a total order
(antisymmetric, transitive, total; equality = same instant), the chronological order of two ymcw values in one month
is NOT the raw (count, weekday) order; Sort = a permutation, non-decreasing in the key (TLC, small scope).
A: dt_dcmp / dt_d_in_range_p for every notation on day pairs against the chain index order.
B: dtest exit codes and dsort outputs validated by OrderTrace."""
import json
from vlib import core, chain as chainmod, caldrv
from checks import calcommon as cc

PID = "C08"
TIMES = ["00:00:00", "00:00:01", "11:59:59", "12:00:00", "23:59:59"]


def sod(t):
    h, m, s = t.split(":")
    return int(h) * 3600 + int(m) * 60 + int(s)


OFFS = ["Z", "+00:00", "+01:00", "-05:00", "+05:30", "+05:45", "-09:30", "+12:00", "+12:45", "+13:00", "+13:45", "+14:00", "-11:00", "-12:00"]


def with_offset(l, t, off):
    """(text suffix, key) of local date l, time t written with UTC offset off: the instant is local - offset"""
    if off == "Z":
        return "Z", (l, sod(t))
    sec = (int(off[1:3]) * 3600 + int(off[4:6]) * 60) * (1 if off[0] == "+" else -1)
    u = sod(t) - sec
    return off, (l + u // 86400, u % 86400)


def dtest_runs(rep, b, ch, pairs, rng):
    """dtest A --cmp B (and the six predicates) -> Cmp events"""
    from concurrent.futures import ThreadPoolExecutor
    tool = b.tool("dtest")
    jobs = []
    for (la, ta), (lb, tb) in pairs:
        kind = rng.choice(["ymd", "ymcw", "ywd", "yd", "ldn"])
        if kind == "ldn" and (ta or tb):
            kind = "ymd"
        A = cc.fmt_row(kind, ch.row(la)) + ("T" + ta if ta else "")
        B = cc.fmt_row(kind, ch.row(lb)) + ("T" + tb if tb else "")
        fl = rng.choice(["--cmp", "--eq", "--ne", "--lt", "--le", "--gt", "--ge"])
        args = ["-i", cc.INFMT[kind] + ("T%T" if ta else "")] if kind != "ymd" or True else []
        if kind in ("ldn",):
            args = ["-i", "ldn"]
        pa, pb = (la, sod(ta) if ta else 0), (lb, sod(tb) if tb else 0)
        if ta and tb and rng.random() < 0.5:
            # date-times with numeric UTC offsets compare as instants
            kind, args = "ymd", []
            sa, pa = with_offset(la, ta, rng.choice(OFFS))
            sb, pb = with_offset(lb, tb, rng.choice(OFFS))
            A = cc.fmt_row("ymd", ch.row(la)) + "T" + ta + sa
            B = cc.fmt_row("ymd", ch.row(lb)) + "T" + tb + sb
        elif ta and tb and rng.random() < 0.25:
            # both operands as seconds since the epoch
            kind, args = "epoch", []
            A = "@%d" % ((la - 141427) * 86400 + sod(ta))
            B = "@%d" % ((lb - 141427) * 86400 + sod(tb))
        jobs.append((kind, A, B, fl, args, pa, pb))

    def one(j):
        kind, A, B, fl, args, pa, pb = j
        p = core.run([tool] + args + [A, fl, B], timeout=20)
        return j, p.returncode
    ev = []
    with ThreadPoolExecutor(max_workers=core.NCPU) as ex:
        for (kind, A, B, fl, args, pa, pb), rc in ex.map(one, jobs):
            ev.append([{"e": "Reset"}, {"e": "Test", "src": "dtest %s %s" % (kind, fl), "a": list(pa), "b": list(pb), "flag": fl[2:], "rc": rc,
                                      "A": A, "B": B}])
    rep.notes["tool_runs"] = rep.notes.get("tool_runs", 0) + len(jobs)
    return ev


def dsort_runs(rep, b, ch, rng, nruns, maxlines):
    tool = b.tool("dsort")
    execs = []
    for i in range(nruns):
        n = rng.randrange(2, maxlines)
        withtime = rng.random() < 0.5
        withoffs = withtime and rng.random() < 0.5
        base = rng.randrange(chainmod.LDN_1601 + 400, caldrv.TAIL_FIRST - 400)
        lines, keys = [], []
        for k in range(n):
            l = base + rng.randrange(-300, 300) if rng.random() < 0.8 else rng.randrange(chainmod.LDN_1601, caldrv.TAIL_FIRST)
            if lines and rng.random() < 0.15:
                l = keys[rng.randrange(len(keys))][0]      # duplicates
            t = rng.choice(TIMES) if withtime else None
            txt = cc.fmt_row("ymd", ch.row(l)) + ("T" + t if t else "")
            key = (l, sod(t) if t else 0)
            if t and withoffs:
                sfx, key = with_offset(l, t, rng.choice(OFFS))
                txt += sfx
            lines.append("id%03d %s payload %d" % (k, txt, rng.randrange(1000)))
            keys.append(key)
        rev = rng.random() < 0.4
        p = core.run([tool] + (["-r"] if rev else []), inp="".join(x + "\n" for x in lines), timeout=30)
        out = p.stdout.splitlines()
        ids = []
        ok = True
        for o in out:
            if o in lines:
                ids.append(lines.index(o) if lines.count(o) == 1 else [i for i, x in enumerate(lines) if x == o][0])
            else:
                ok = False
        ex = [{"e": "Reset"}, {"e": "Sort", "src": "dsort" + (" -r" if rev else ""), "rev": rev, "keys": [list(k) for k in keys],
                                "out": [list(keys[lines.index(o)]) if o in lines else [-1, -1] for o in out],
                                "outlines_all_from_input": ok, "nin": len(lines), "nout": len(out), "rc": p.returncode}]
        execs.append(ex)
    rep.notes["tool_runs"] = rep.notes.get("tool_runs", 0) + nruns
    return execs


def main(tier):
    rep = core.Report(PID, tier, "model_checking")
    b = core.Build("plain")
    try:
        quick = tier == "quick"
        r = core.tlc_must_pass("Order", "Order.cfg", keep_prints=False)
        rep.add_tlc("Order (total order laws, ymcw order, sort = ordered permutation; small scope)", r)
        ch = chainmod.Chain()
        rep.notes["chain"] = {"source": "TLC run of spec/Calendar.tla (cached by spec hash)", **ch.meta}
        drv = b.driver("drv_cal", link_lib=True)
        bnd = chainmod.boundary_ldns(core.rng("c08"), width=40)
        plan = [dict(mode="cmp", step=3 if quick else 1, args=(20 if quick else 45, 3 if quick else 12), exhaustive=False)]
        cc.run_plan(rep, b, ch, drv, plan)
        rng = core.rng("c08")
        pairs = []
        npairs = 1200 if quick else 150000
        for i in range(npairs):
            la = rng.choice(bnd) if rng.random() < 0.6 else rng.randrange(chainmod.LDN_1601, caldrv.TAIL_FIRST)
            la = min(la, caldrv.TAIL_FIRST - 50)
            lb = la + rng.choice([0, 0, 1, -1, 7, -7, 28, -31, 365, -366]) if rng.random() < 0.7 else rng.randrange(chainmod.LDN_1601, caldrv.TAIL_FIRST)
            lb = max(chainmod.LDN_1601, min(lb, caldrv.TAIL_FIRST - 1))
            wt = rng.random() < 0.4
            pairs.append(((la, rng.choice(TIMES) if wt else None), (lb, rng.choice(TIMES) if wt else None)))
        ex = dtest_runs(rep, b, ch, pairs, rng)
        ex += dsort_runs(rep, b, ch, rng, 60 if quick else 4000, 60 if quick else 300)
        cc.validate_and_report(rep, "OrderTrace", "OrderTrace.cfg", ex, lambda bad, e: "cli %s" % bad.get("src", "?"), "tool_execution")
        rep.cov["rule"] = ("A: one case = ordered pair (and triple for the range predicate) of days in one notation, all 9 notations, "
                           "windows of +-20|45 days around every 3rd|every day plus seeded far pairs; B: one trace = one dtest run "
                           "(exit status) or one dsort run (permutation + order) validated by OrderTrace")
        rep.assumptions += ["operands of one comparison are in the same notation (the library answers 'not comparable' across notations)",
                            "dsort: ties may come out in any order"]
        return rep.finish()
    finally:
        b.close()


def replay(path):
    print(open(path).read())
    return 0
