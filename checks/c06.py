"""C06 -- duration output conserves the total (refinement rule).
Spec: Duration.tla -- Split of a duration over every subset of the fixed-length units {w,d,H,M,S}: Recombine (total
truncated toward zero to the finest requested unit), InRange (each refined unit below one of the next coarser requested
unit), Plain ({S} = plain seconds, {d} = plain days), model-checked on boundary totals.  DurationTrace.tla applies
Split to the integers the real ddiff printed for ordered pairs of date-times, for every subset and order of the
specifiers, with padding modifiers, and demands exactly one leading minus sign for negative totals.  Year/month
specifiers: months < 12 under years and conservation of the year-month-day part ride on C05's Apply."""
import itertools
from vlib import core, chain as chainmod, caldrv
from checks import calcommon as cc
from checks import diffcommon as dc

PID = "C06"


def main(tier):
    rep = core.Report(PID, tier, "model_checking")
    b = core.Build("plain")
    try:
        quick = tier == "quick"
        rng = core.rng("c06")
        r = core.tlc_must_pass("Duration", "Duration.cfg", keep_prints=False)
        rep.add_tlc("Duration (Recombine, InRange, Plain, SplitSame over all 31 unit subsets x boundary totals)", r)
        ch = chainmod.Chain()
        ddiff = b.tool("ddiff")
        subsets = []
        for k in range(1, 6):
            for c in itertools.combinations("wdHMS", k):
                subsets.append(list(c))
        execs = []
        nrun = 0
        SODS = [0, 1, 59, 60, 3599, 3600, 43199, 43200, 86399]
        for si in range(2 if quick else 12):
            base = rng.randrange(chainmod.LDN_1601 + 40000, caldrv.TAIL_FIRST - 40000)
            ls = set()
            while len(ls) < (14 if quick else 24):
                k = rng.random()
                ls.add(base + (rng.randrange(-3, 4) if k < 0.4 else rng.randrange(-40, 40) if k < 0.7 else rng.randrange(-400, 400) if k < 0.85
                               else rng.randrange(-30000, 30000)))
            ls.update((base - 26000, base + 26000))        # spans beyond 2^31 seconds (68 years)
            pts = [dc.point(ch, l, rng.choice(SODS)) for l in sorted(ls)]
            for units in subsets:
                orders = [units] if quick else [units, list(reversed(units))]
                for order in orders:
                    for pad in ([""] if quick or len(order) < 2 else ["", "0"]):
                        res, bad = dc.run_matrix(ddiff, pts, True, order, pad)
                        nrun += len(pts)
                        for i, n, rc in bad:
                            rep.disagree("ddiff %s: wrong number of output lines" % "".join(order), {"A": dc.text(pts[i], True), "lines": n, "rc": rc})
                        for (i, j), line in res.items():
                            if i == j and rng.random() < 0.8:
                                continue
                            a, bb = pts[i], pts[j]
                            dd, ds = bb["ldn"] - a["ldn"], bb["sod"] - a["sod"]
                            if abs(dd) > 24000 and order == ["S"]:
                                # the number of seconds leaves TLC's 32-bit integers: hand it over as <<div 86400, mod 86400>>
                                digits = line.strip().lstrip("-")
                                val = int(digits) if digits.isdigit() else -1
                                execs.append([{"e": "BigS", "cmd": "ddiff %s %s -f '%%S'" % (dc.text(a, True), dc.text(bb, True)), "fmt": "S(big)" + pad, "dd": dd, "ds": ds,
                                               "hi": val // 86400 if val >= 0 else -1, "lo": val % 86400 if val >= 0 else -1,
                                               "minus": line.count("-"), "lead": line.strip().startswith("-"), "out": line}])
                                continue
                            # (every other subset has a unit coarser than seconds: Split2 folds the days into it without forming the total in seconds)
                            p = dc.parse(line, order)
                            vals = {u: (p[0][u] if p else -1) for u in order}
                            execs.append([{"e": "Split", "cmd": "ddiff %s %s -f '%s'" % (dc.text(a, True), dc.text(bb, True), dc.fmt_of(order, pad)),
                                           "fmt": "".join(order) + pad, "dd": dd, "ds": ds, "units": order, "vals": vals,
                                           "minus": p[1] if p else 9, "lead": bool(p and p[2]), "out": line}])
        # years and months: months stay below 12 under years, exactly one sign (conservation itself is C05's Apply)
        pts = [dc.point(ch, ch.ldn_of(*x)) for x in [(2001, 2, 28), (2011, 12, 31), (2012, 1, 27), (2013, 1, 25), (2000, 2, 29), (2099, 6, 15), (1905, 3, 1)]]
        for units in (["Y", "m", "d"], ["m", "d"], ["Y", "m"], ["Y", "d"]):
            res, bad = dc.run_matrix(ddiff, pts, False, units)
            nrun += len(pts)
            for (i, j), line in res.items():
                p = dc.parse(line, units)
                if p is None or p[1] > 1 or (p[1] == 1 and not p[2]) or ("Y" in units and "m" in units and p[0]["m"] >= 12):
                    rep.disagree("ddiff %s: months not below 12 under years, or more than one minus sign" % "".join(units),
                                 {"A": dc.text(pts[i], False), "B": dc.text(pts[j], False), "out": line})
        # years with weeks and days (ISO week durations): weeks stay below 54 under years, days below 7 under weeks, one sign -- on pairs
        # years apart incl. same week number with an earlier weekday (where the borrows chain); conservation itself is C05's Apply
        ypts = [dc.point(ch, ch.ldn_of(*x)) for x in [(2020, 3, 6), (2021, 3, 9), (2015, 6, 19), (2018, 6, 18), (2004, 12, 31), (2009, 1, 1), (2010, 1, 3), (2012, 2, 29),
                                                      (2016, 2, 29), (1999, 12, 27), (2026, 1, 1)]]
        for units in (["Y", "w", "d"], ["Y", "w"], ["w", "d"], ["Y", "m", "w", "d"]):
            res, bad = dc.run_matrix(ddiff, ypts, False, units)
            nrun += len(ypts)
            for (i, j), line in res.items():
                p = dc.parse(line, units)
                ok = p is not None and p[1] <= 1 and (p[1] == 0 or p[2])
                if ok and "Y" in units and p[0]["w"] >= 54:
                    ok = False
                if ok and "w" in units and "d" in units and p[0]["d"] >= 7:
                    ok = False
                if ok and "m" in units and "Y" in units and p[0]["m"] >= 12:
                    ok = False
                if ok and "m" in units and p[0]["w"] >= 5:
                    ok = False
                if not ok:
                    rep.disagree("ddiff %s: a refined unit outside its natural range, or more than one minus sign" % "".join(units),
                                 {"A": dc.text(ypts[i], False), "B": dc.text(ypts[j], False), "out": line})
        # year/month specifiers next to fixed units, date-times less than four weeks apart (incl. identical ones): years and months are 0 and the
        # remaining components recombine to the whole duration
        base = ch.ldn_of(2020, 2, 29)
        near = [dc.point(ch, base + k, sod) for k, sod in ((0, 36000), (0, 36000), (0, 0), (1, 0), (-1, 86399), (3, 3600), (-20, 43200), (26, 1), (-27, 59), (0, 86399))]
        for units in (["Y", "m", "d"], ["Y", "H"], ["m", "d", "H", "M", "S"], ["Y", "m", "d", "H", "M", "S"], ["Y", "d", "S"], ["m", "w", "d"]):
            res, bad = dc.run_matrix(ddiff, near, True, units)
            nrun += len(near)
            rest = [u for u in units if u not in ("Y", "m")]
            for (i, j), line in res.items():
                a, bb = near[i], near[j]
                dd, ds = bb["ldn"] - a["ldn"], bb["sod"] - a["sod"]
                if abs(dd) > 27:
                    continue
                p = dc.parse(line, units)
                if p is None or p[0].get("Y", 0) or p[0].get("m", 0):
                    rep.disagree("ddiff %s: years/months not zero for date-times less than four weeks apart" % "".join(units),
                                 {"A": dc.text(a, True), "B": dc.text(bb, True), "out": line})
                    continue
                execs.append([{"e": "Split", "cmd": "ddiff %s %s -f '%s'" % (dc.text(a, True), dc.text(bb, True), dc.fmt_of(units, "")),
                               "fmt": "".join(units), "dd": dd, "ds": ds, "units": rest, "vals": {u: p[0][u] for u in rest},
                               "minus": p[1], "lead": bool(p[2]), "out": line}])
        # year/month specifiers next to time units, date-times months and years apart: the components, applied to the earlier value the way
        # dateadd would (years and months in one step keeping the day, then the fixed-length units), must land on the later one -- what is above
        # the coarsest fixed-length unit and below the months may not get lost (DiffTrace.tla, shared with C05)
        # (times on full hours: formats whose finest unit is the hour or minute then lose nothing to truncation)
        ymp = [dc.point(ch, ch.ldn_of(*x), sod) for x, sod in (((2012, 1, 1), 0), ((2012, 3, 1), 3600), ((2012, 3, 28), 82800), ((2013, 3, 1), 3600), ((2011, 11, 27), 43200),
                                                              ((2012, 2, 28), 0), ((2016, 2, 28), 7200), ((2015, 12, 28), 36000))]
        dexecs = []
        for units in (["Y", "H"], ["Y", "m", "H"], ["m", "H", "M"], ["Y", "m", "d", "H", "M", "S"], ["m", "d", "S"], ["Y", "M"], ["m", "S"], ["Y", "d", "H"]):
            evs, k = dc.diff_events(rep, ddiff, ymp, True, units, max_span=2000)
            dexecs += evs
            nrun += k
        # one operand as seconds since the epoch (the command-line one), the other in civil notation, before 1970 and beyond 2106 (where the
        # seconds do not fit 32 bits): the printed units must still lead from the earlier to the later value
        for cluster in ([((1950, 3, 5), 0), ((1969, 12, 31), 86399), ((1970, 1, 1), 0), ((1970, 1, 2), 3600), ((1938, 4, 24), 43200), ((1901, 12, 13), 72000)],
                        [((2100, 1, 1), 0), ((2106, 2, 7), 23295), ((2106, 2, 7), 23296), ((2106, 2, 8), 0), ((2120, 5, 5), 82800), ((2038, 1, 19), 11647)]):
            mp = [dc.point(ch, ch.ldn_of(*x), sod) for x, sod in cluster]
            for units in (["S"], ["d", "S"], ["w", "d", "H", "M", "S"], ["H", "M", "S"]):      # down to the second: nothing is lost to truncation
                evs, k = dc.diff_events(rep, ddiff, mp, True, units, max_span=24000 if units[0] in "SHM" else None, argfn=dc.epoch_text, tag=" (epoch operand)")
                dexecs += evs
                nrun += k
        cc.validate_and_report(rep, "DiffTrace", "DiffTrace.cfg", dexecs, lambda bad, ex: "ddiff year/month with time units %s: components do not lead from the earlier to the later value" % bad.get("fmt"),
                               "ddiff_ym_time", group=lambda ex: ex[0]["fmt"])
        rep.notes["tool_runs"] = nrun
        cc.validate_and_report(rep, "DurationTrace", "DurationTrace.cfg", execs, lambda bad, ex: "ddiff split %s" % bad.get("fmt"), "ddiff_split",
                               group=lambda ex: ex[0]["fmt"])
        rep.cov["rule"] = ("one trace = one ordered pair of date-times x one format: every non-empty subset of %w %d %H %M %S (31), quick: natural "
                           "order, thorough: both orders and zero padding; point sets: 2|12 clusters of 14|24 date-times (adjacent, +-40, +-400, "
                           "+-30000 days; seconds of day at the carry boundaries); |seconds| kept below 2^31 unless d or w is requested")
        rep.assumptions += ["totals are logged as <<day difference, second difference>> of the inputs' chain positions",
                            "formats with %Y/%m are checked here only for months < 12 and a single sign; their conservation is C05"]
        return rep.finish()
    finally:
        b.close()


def replay(path):
    print(open(path).read())
    return 0
