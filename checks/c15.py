"""C15 -- dateseq emits exactly the arithmetic progression between its bounds.
Spec: Seq.tla (state machine Start -> Emit* -> Stop; safety + liveness <>done model-checked on small lines for the three
kinds of progression: integer line with skips and --compute-from-last, month/year steps taken in one step with clamp,
times of day around the clock).  B: the unmodified dseq is run (under a timeout) on scenarios derived from the model's
instance space, boundary scenarios and seeded ones; its output lines are re-encoded (chain day numbers, seconds) and
SeqTrace.tla replays Start, Emit*, Stop: each Emit is enabled only for the next element, Stop only when none remains,
a killed run (Timeout) is never enabled."""
import re, datetime
from concurrent.futures import ThreadPoolExecutor
from vlib import core, chain as chainmod, caldrv

PID = "C15"
WDN = ["", "mon", "tue", "wed", "thu", "fri", "sat", "sun"]
D0 = datetime.date(1582, 10, 15)


def ldn(y, m, d):
    return (datetime.date(y, m, d) - D0).days


def fmtd(l):
    return (D0 + datetime.timedelta(days=l)).isoformat()


def fmtn(nota, l):
    """day l in notation ymd / ywd / yd / ymcw"""
    d = D0 + datetime.timedelta(days=l)
    if nota == "ywd":
        iy, iw, wd = d.isocalendar()
        return "%04d-W%02d-%d" % (iy, iw, wd)
    if nota == "yd":
        return "%04d-%03d" % (d.year, d.timetuple().tm_yday)
    if nota == "ymcw":
        return "%04d-%02d-%02d-%02d" % (d.year, d.month, (d.day - 1) // 7 + 1, d.isoweekday())
    return d.isoformat()


def parsen(nota, line):
    if nota == "ywd":
        m = re.match(r"^(\d{4})-W(\d\d)-(\d)$", line)
        return (datetime.date.fromisocalendar(int(m.group(1)), int(m.group(2)), int(m.group(3)) or 7) - D0).days
    if nota == "yd":
        y, j = line.split("-")
        return (datetime.date(int(y), 1, 1) - D0).days + int(j) - 1
    if nota == "ymcw":
        y, m, c, w = map(int, line.split("-"))
        first = datetime.date(y, m, 1)
        off = ((w or 7) - first.isoweekday()) % 7
        return (first - D0).days + off + 7 * (c - 1)
    y, m, d = map(int, line.split("-"))
    return ldn(y, m, d)


def hms(s):
    return "%02d:%02d:%02d" % (s // 3600, s // 60 % 60, s % 60)


def mo_unit(rng, im):
    """a month count written in months, or (where it divides) in quarters or years"""
    forms = ["%dmo" % im]
    if im % 3 == 0:
        forms += ["%dq" % (im // 3)] * 2
    if im % 12 == 0:
        forms += ["%dy" % (im // 12)] * 2
    return rng.choice(forms)


def scenarios(rng, quick):
    sc = []
    n = 150 if quick else 40000
    hi = caldrv.TAIL_FIRST - 3000
    # dates, day / week increments, skips, compute-from-last
    for i in range(n):
        f = rng.randrange(chainmod.LDN_1601 + 500, hi)
        inc = rng.choice([1, 1, 2, 3, 5, 7, 10, 30, -1, -2, -7, -13])
        unit = rng.choice(["d", "d", "d", "w"])
        step = inc * (7 if unit == "w" else 1)
        span = rng.randrange(0, 40) * abs(step) + rng.choice([0, 0, 1, abs(step) - 1 if abs(step) > 1 else 0])
        span = min(span, 400)
        wrong = rng.random() < 0.07
        l = f + (span if (step > 0) != wrong else -span)
        skip = rng.choice([[], [], [6, 7], [7], [1, 3, 5], [1, 2, 3, 4, 5]])
        cfl = rng.random() < 0.25
        args = [fmtd(f), "%d%s" % (inc, unit), fmtd(l)] + sum((["-s", WDN[w]] for w in skip), []) + (["--compute-from-last"] if cfl else [])
        sc.append(dict(kind="lin", args=args, first=f, inc=step, last=l, skip=skip, cfl=cfl, wd0=5, dec="date"))
    # other calendars, and runs across new year in both directions for every year type (the ISO week calendar carries hidden state
    # across year ends; output is printed in the calendar of the bounds, or as %F)
    seen = set()
    for y in range(1995, 2030):
        k = (datetime.date(y, 1, 1).isoweekday(), y % 4 == 0)
        if k in seen:
            continue
        seen.add(k)
        ny = ldn(y, 1, 1)
        for nota in (("ywd", "yd", "ymcw", "ymd") if not quick else ("ywd", "yd")):
            for inc, unit, a, bnd in ((-1, "w", 11, -24), (1, "w", -24, 11), (-3, "d", 5, -7), (3, "d", -7, 5), (-1, "w", 370, -10)):
                step = inc * (7 if unit == "w" else 1)
                f = ny + a
                l = f + (abs(bnd - a) // abs(step)) * step
                for cfl in (False, True):
                    for fmt in ((None, "%F") if nota == "ywd" else (None,)):
                        args = [fmtn(nota, f), "%d%s" % (inc, unit), fmtn(nota, l)] + (["--compute-from-last"] if cfl else []) + (["-f", fmt] if fmt else [])
                        sc.append(dict(kind="lin", args=args, first=f, inc=step, last=l, skip=[], cfl=cfl, wd0=5, dec="date", nota="ymd" if fmt else nota))
    for i in range(n // 5):
        nota = rng.choice(["ywd", "yd", "ymcw"])
        f = rng.randrange(chainmod.LDN_1601 + 500, hi)
        inc = rng.choice([1, 2, 7, 30, -1, -7, -13])
        unit = rng.choice(["d", "w"])
        step = inc * (7 if unit == "w" else 1)
        l = f + rng.randrange(0, 30) * step
        if not (chainmod.LDN_1601 + 10 <= l < hi + 2000):
            l = f       # keep the bound inside the years the tools accept
        sc.append(dict(kind="lin", args=[fmtn(nota, f), "%d%s" % (inc, unit), fmtn(nota, l)], first=f, inc=step, last=l, skip=[], cfl=False, wd0=5, dec="date", nota=nota))
    # no increment given: defaults to 1d; first > last gives nothing
    for i in range(n // 10):
        f = rng.randrange(chainmod.LDN_1601 + 500, hi)
        l = f + rng.randrange(-5, 30)
        sc.append(dict(kind="lin", args=[fmtd(f), fmtd(l)], first=f, inc=1, last=l, skip=[], cfl=False, wd0=5, dec="date"))
    # zero increments must be refused
    for u in ("d", "w", "mo", "y"):
        sc.append(dict(kind="lin", args=["2012-03-01", "0" + u, "2012-03-10"], first=ldn(2012, 3, 1), inc=0, last=ldn(2012, 3, 10), skip=[], cfl=False,
                       wd0=5, dec="date"))
    # month / year / compound increments
    for i in range(n // 2):
        y, m = rng.randrange(1700, 3900), rng.randrange(1, 13)
        d = rng.choice([1, 15, 28, 29, 30, 31])
        try:
            datetime.date(y, m, d)
        except ValueError:
            d = 28
        im = rng.choice([1, 1, 2, 3, 6, 12, 24, -1, -3, -12, 11, 13])
        idd = 0     # compound month+day increments are iterated by the tool; the property speaks of month/year increments only
        steps = rng.randrange(0, 30)
        t = y * 12 + m - 1 + im * steps
        ly, lm = t // 12, t % 12 + 1
        if not (1602 <= ly <= 4090):
            continue
        ld = rng.choice([1, 15, 28, 30, 30])
        if lm == 2 and ld > 28:
            ld = 28
        l = ldn(ly, lm, ld)
        unit = mo_unit(rng, im)
        incs = unit + ("%dd" % idd if idd else "")
        skip = rng.choice([[], [], [6, 7], [rng.randrange(1, 8)], sorted(rng.sample(range(1, 8), 2))])
        args = ["%04d-%02d-%02d" % (y, m, d), incs, fmtd(l)] + sum((["-s", WDN[w]] for w in skip), [])
        sc.append(dict(kind="mon", args=args, first=[y, m, d], inc=[im, idd], last=l, skip=skip, cfl=False, wd0=5, dec="date"))
    # compound increments (days or weeks together with months or years, written in either order): where the day of the month stays within
    # 1..28 on the whole run, "k increments" means the same under every reading (k times the month part and k times the day part)
    for i in range(n // 4 + 30):
        neg = rng.random() < 0.35
        idd = rng.choice([1, 2, 3, 7])
        im = rng.choice([1, 1, 2, 3, 12, 13])
        d = rng.randrange(1, 9) if not neg else rng.randrange(21, 29)
        room = (28 - d) // idd if not neg else (d - 1) // idd
        steps = rng.randrange(0, min(9, room) + 1)
        y, m = rng.randrange(1700, 3900), rng.randrange(1, 13)
        sg = -1 if neg else 1
        t = y * 12 + m - 1 + sg * im * steps
        ly, lm = t // 12, t % 12 + 1
        if not (1602 <= ly <= 4090):
            continue
        l = ldn(ly, lm, d + sg * idd * steps) + sg * rng.choice([0, 0, 1, 2])
        dtxt = "%dw" % (idd // 7) if idd == 7 else "%dd" % idd
        mtxt = "%dmo" % im if im % 12 or rng.random() < 0.5 else "%dy" % (im // 12)
        incs = ("-" if neg else "") + (dtxt + mtxt if rng.random() < 0.6 else mtxt + dtxt)
        sc.append(dict(kind="mon", args=["%04d-%02d-%02d" % (y, m, d), incs, fmtd(l)], first=[y, m, d], inc=[sg * im, sg * idd], last=l, skip=[], cfl=False, wd0=5, dec="date"))
    # the same with date-time bounds: the time of day rides along unchanged, LAST is compared as a date-time -- the model is given
    # the day on which the run must end (LAST's day, or the day before/after when FIRST's time of day lies beyond LAST's)
    for i in range(n // 3 + 40):
        y, m = rng.randrange(1700, 3900), rng.randrange(1, 13)
        d = rng.choice([1, 15, 28, 29, 30, 31, 31, 30, 29])
        try:
            datetime.date(y, m, d)
        except ValueError:
            d = 28
        im = rng.choice([1, 1, 2, 3, 6, 12, 24, -1, -3, -12, 11])
        steps = rng.randrange(0, 14)
        t = y * 12 + m - 1 + im * steps
        ly, lm = t // 12, t % 12 + 1
        if not (1602 <= ly <= 4090):
            continue
        # LAST on the day the last element is clamped to, as often as not
        ldd = (datetime.date(ly + (lm == 12), lm % 12 + 1, 1) - datetime.timedelta(days=1)).day
        ld = min(d, ldd) if rng.random() < 0.6 else rng.choice([1, 15, 28])
        fs, ls = rng.choice([0, 36000, 43200, 86399]), rng.choice([0, 36000, 43200, 86399])
        l = ldn(ly, lm, ld)
        leff = l if (fs <= ls if im > 0 else fs >= ls) else (l - 1 if im > 0 else l + 1)
        unit = mo_unit(rng, im)
        skip = rng.choice([[], [], [6, 7], [rng.randrange(1, 8)]])
        args = ["%04d-%02d-%02dT%s" % (y, m, d, hms(fs)), unit, "%sT%s" % (fmtd(l), hms(ls))] + sum((["-s", WDN[w]] for w in skip), [])
        sc.append(dict(kind="mon", args=args, first=[y, m, d], inc=[im, 0], last=leff, skip=skip, cfl=False, wd0=5, dec="dtmon", tod=fs))
    # a clamped element (31st -> 30th / end of February) that falls on a skipped weekday, incl. as the last element
    for y in (1999, 2010, 2011, 2012, 2024, 2100, 3000):
        for fm, n in ((1, 3), (1, 1), (3, 1), (5, 4), (8, 3), (10, 1)):
            t = y * 12 + fm - 1 + n
            ly, lm = t // 12, t % 12 + 1
            ldd = (datetime.date(ly + (lm == 12), lm % 12 + 1, 1) - datetime.timedelta(days=1)).day
            wd = datetime.date(ly, lm, ldd).isoweekday()
            for skip in ([wd], [wd, wd % 7 + 1]):
                args = ["%04d-%02d-31" % (y, fm), "1mo", "%04d-%02d-%02d" % (ly, lm, ldd)] + sum((["-s", WDN[w]] for w in skip), [])
                sc.append(dict(kind="mon", args=args, first=[y, fm, 31], inc=[1, 0], last=ldn(ly, lm, ldd), skip=sorted(skip), cfl=False, wd0=5, dec="date"))
    # month / year increments anchored on LAST (--compute-from-last): the run is the run from LAST with the negated increment
    # down to FIRST, printed in ascending order -- the model is given exactly that instance and the tool's lines reversed
    for i in range(max(12, n // 4)):
        ly, lm = rng.randrange(1702, 3890), rng.randrange(1, 13)
        ld = rng.choice([28, 29, 30, 31, 31, 30, 15])
        try:
            datetime.date(ly, lm, ld)
        except ValueError:
            ld = 28 if lm == 2 else 30
        im = rng.choice([1, 1, 2, 3, 6, 12, 12, 48, 5])
        steps = rng.randrange(1, 14)
        t = ly * 12 + lm - 1 - im * steps
        fy, fm = t // 12, t % 12 + 1
        if fy < 1602:
            continue
        fd = rng.choice([1, 1, 15, 27])
        unit = mo_unit(rng, im)
        args = ["--compute-from-last", "%04d-%02d-%02d" % (fy, fm, fd), unit, "%04d-%02d-%02d" % (ly, lm, ld)]
        sc.append(dict(kind="mon", args=args, first=[ly, lm, ld], inc=[-im, 0], last=ldn(fy, fm, fd), skip=[], cfl=False, wd0=5, dec="date", rev=True))
    # times of day around the clock
    for i in range(n // 2):
        f = rng.choice([0, 1, 3600, 36000, 43200, 82800, 86399, rng.randrange(86400)])
        inc = rng.choice([1, 60, 61, 600, 3600, 5400, 7200, 10800, 43200, -1, -60, -3600, -5400, 1800, -1800])
        laps = rng.randrange(0, 30)
        l = (f + inc * laps + rng.choice([0, 0, 1, -1]) * min(abs(inc) - 1, 7)) % 86400
        if abs(inc) < 60 and laps > 20:
            l = (f + inc * laps) % 86400
        if (l - f) % 86400 // max(1, abs(inc)) > 2000 and abs(inc) < 60:
            continue
        unit = "%ds" % inc if inc % 60 else ("%dm" % (inc // 60) if inc % 3600 else "%dh" % (inc // 3600))
        cfl = rng.random() < 0.35
        sc.append(dict(kind="tod", args=(["--compute-from-last"] if cfl else []) + [hms(f), unit, hms(l)], first=f, inc=inc, last=l, skip=[], cfl=cfl, wd0=1, dec="time"))
    # compound time increments (1h30m) crossing midnight
    for f, a, bm, l in [(82800, 1, 30, 14400), (82800, 1, 45, 10800), (7200, -1, -30, 75600), (3600, 2, 15, 3599), (79200, 0, 90, 1800)]:
        inc = a * 3600 + bm * 60
        sc.append(dict(kind="tod", args=[hms(f), ("%dh" % a if a else "") + "%dm" % bm, hms(l)], first=f, inc=inc, last=l, skip=[], cfl=False, wd0=1, dec="time"))
    # date-times with second / minute / hour increments: values are seconds relative to FIRST
    for i in range(n // 3):
        fday = rng.randrange(chainmod.LDN_1601 + 500, hi)
        fs = rng.choice([0, 36000, 86399, rng.randrange(86400)])
        inc = rng.choice([1, 30, 60, 3600, 43200, 86400, 90000, -3600, -86400, 7 * 3600])
        steps = rng.randrange(0, 40)
        rel = inc * steps + rng.choice([0, 0, 1, -1]) * min(abs(inc) - 1, 5)
        tot = fday * 86400 + fs + rel
        lday, ls = tot // 86400, tot % 86400
        unit = "%ds" % inc if inc % 60 else ("%dm" % (inc // 60) if inc % 3600 else "%dh" % (inc // 3600))
        args = ["%sT%s" % (fmtd(fday), hms(fs)), unit, "%sT%s" % (fmtd(lday), hms(ls))]
        sc.append(dict(kind="lin", args=args, first=0, inc=inc, last=rel, skip=[], cfl=False, wd0=1, dec="dt", base=(fday, fs)))
    return sc


def nb(d):
    """number of Monday-to-Friday days up to and including d (proleptic ordinal 1 is a Monday)"""
    w, r = divmod(d.toordinal(), 7)
    return w * 5 + min(r, 5)


def from_nb(i):
    """the business day with index i"""
    w, r = divmod(i, 5)
    if r == 0:
        w, r = w - 1, 5
    return datetime.date.fromordinal(w * 7 + r)


def bizda_text(d):
    first = d.replace(day=1)
    return "%04d-%02d-%02db" % (d.year, d.month, nb(d) - nb(first - datetime.timedelta(days=1)))


def decode(sc, line):
    try:
        if sc["dec"] == "bizda":
            y, m, k = int(line[0:4]), int(line[5:7]), int(line[8:10])
            if not line.endswith("b") or len(line) != 11:
                return -999999997
            base = nb(datetime.date(y, m, 1) - datetime.timedelta(days=1))
            d = from_nb(base + k)
            return base + k if (d.year, d.month) == (y, m) and k >= 1 else -999999996
        if sc["dec"] == "date":
            return parsen(sc.get("nota", "ymd"), line)
        if sc["dec"] == "dtmon":
            dpart, tpart = line.split("T")
            h, mi, s_ = map(int, tpart.split(":"))
            return parsen("ymd", dpart) if h * 3600 + mi * 60 + s_ == sc["tod"] else -999999998
        if sc["dec"] == "time":
            h, m, s = map(int, line.split(":"))
            return h * 3600 + m * 60 + s
        dpart, tpart = line.split("T")
        y, m, d = map(int, dpart.split("-"))
        h, mi, s = map(int, tpart.split(":"))
        return (ldn(y, m, d) - sc["base"][0]) * 86400 + h * 3600 + mi * 60 + s - sc["base"][1]
    except Exception:
        return -999999999


def main(tier):
    rep = core.Report(PID, tier, "model_checking")
    b = core.Build("plain")
    try:
        quick = tier == "quick"
        rng = core.rng("c15")
        r = core.tlc_must_pass("Seq", "Seq.cfg" if quick else "SeqThorough.cfg", keep_prints=False, timeout=3000, heap="16g")
        rep.add_tlc("Seq (Monotone, NoSkipped, Within, StartsAtFirst, EndsAtLast, TodBound; liveness Terminates)", r)
        dseq = b.tool("dseq")
        scs = scenarios(rng, quick)

        def one(sc):
            import subprocess
            try:
                p = subprocess.run([dseq] + sc["args"], stdout=subprocess.PIPE, stderr=subprocess.PIPE, timeout=5, text=True, errors="replace")
                lines = p.stdout.splitlines()
                if len(lines) > 20000:
                    return sc, None, "flood"
                return sc, lines, p.returncode
            except subprocess.TimeoutExpired:
                # not before a second run with twelve times the patience does not end either
                try:
                    p = subprocess.run([dseq] + sc["args"], stdout=subprocess.PIPE, stderr=subprocess.PIPE, timeout=60, text=True, errors="replace")
                    lines = p.stdout.splitlines()
                    return (sc, None, "flood") if len(lines) > 20000 else (sc, lines, p.returncode)
                except subprocess.TimeoutExpired:
                    return sc, None, "timeout"
        execs = []
        with ThreadPoolExecutor(max_workers=core.NCPU) as ex:
            for sc, lines, rc in ex.map(one, scs):
                e = [{"e": "Start", "cmd": "dseq " + " ".join(sc["args"]), "kind": sc["kind"], "first": sc["first"], "inc": sc["inc"], "last": sc["last"],
                      "skip": sc["skip"], "cfl": sc["cfl"], "wd0": sc["wd0"]}]
                if lines is None:
                    e.append({"e": "Timeout", "why": rc})
                else:
                    for ln in (reversed(lines) if sc.get("rev") else lines):
                        e.append({"e": "Emit", "v": decode(sc, ln), "txt": ln})
                    e.append({"e": "Stop", "rc": rc})
                execs.append(e)
        # the inapplicable-unit scenarios of the property text (days between two times): probed directly
        for args in (["10:00:00", "1d", "11:00:00"], ["10:00:00", "1mo", "11:00:00"]):
            sc, lines, rc = one(dict(args=args))
            if lines is None:
                rep.disagree("dseq endless: date unit between two times", {"cmd": "dseq " + " ".join(args), "why": rc})
        # business-day dates as bounds (YYYY-MM-DDb): a calendar-day step counts the business days among the days added, so in front of a
        # weekend it does not move the value -- such a run may be refused or cut short but must end; business-day steps are exact
        for args in (["2012-02-01b", "2012-02-10b"], ["2012-02-01b", "1d", "2012-02-10b"], ["2012-02-01b", "2d", "2012-03-10b"], ["2012-02-10b", "-1d", "2012-02-01b"],
                     ["2012-02-01b", "1w", "2012-04-10b"], ["2012-02-01b", "1mo", "2013-02-10b"], ["2012-02-21b", "1y", "2016-02-21b"], ["2012-02-03b", "1d", "2012-02-03b"]):
            sc, lines, rc = one(dict(args=args))
            if lines is None:
                rep.disagree("dseq endless: business-day dates with a step that stops moving", {"cmd": "dseq " + " ".join(args), "why": rc})
        nbiz = 0
        for i in range(12 if quick else 300):
            f = datetime.date(rng.randrange(1700, 3900), rng.randrange(1, 13), rng.randrange(1, 29))
            while f.isoweekday() > 5:
                f += datetime.timedelta(days=1)
            inc = rng.choice([1, 1, 2, 3, 5, 7, 22, -1, -2, -5])
            steps = rng.randrange(0, 25)
            fi = nb(f)
            li = fi + inc * steps + rng.choice([0, 0, 1, -1]) * min(abs(inc) - 1, 2)
            sc = dict(kind="lin", args=[bizda_text(f), "%db" % inc, bizda_text(from_nb(li))], first=fi, inc=inc, last=li, skip=[], cfl=False, wd0=1, dec="bizda")
            sc, lines, rc = one(sc)
            nbiz += 1
            e = [{"e": "Start", "cmd": "dseq " + " ".join(sc["args"]), "kind": "lin", "first": fi, "inc": inc, "last": li, "skip": [], "cfl": False, "wd0": 1}]
            if lines is None:
                e.append({"e": "Timeout", "why": rc})
            else:
                e += [{"e": "Emit", "v": decode(sc, ln), "txt": ln} for ln in lines] + [{"e": "Stop", "rc": rc}]
            execs.append(e)
        rep.notes["tool_runs"] = len(scs) + 10 + nbiz

        def key(bad, ex):
            st = ex[0]
            cls = st["kind"]
            if st["kind"] == "lin":
                cls = "datetime" if "T" in st["cmd"].split()[1] else "business-day date" if st["cmd"].split()[1].endswith("b") else "date"
                if st["cfl"]:
                    cls += " compute-from-last"
                if st["skip"]:
                    cls += " skip"
            return "dseq %s: %s rejected" % (cls, bad.get("e"))
        from checks import calcommon as cc
        cc.validate_and_report(rep, "SeqTrace", "SeqTrace.cfg", execs, key, "dseq_run")
        rep.cov["rule"] = ("one trace = one dseq invocation: Start (instance), one Emit per output line, Stop (exit status) or Timeout; "
                           "scenarios: seeded dates x day/week increments x skip sets x --compute-from-last x wrong directions, default and "
                           "zero increments, month/year/compound increments from days 28..31, times of day around the clock in both "
                           "directions incl. compound increments, date-times with s/m/h increments")
        rep.assumptions += ["output lines are re-encoded only (date -> chain day number, time -> second of day); all judging is done by SeqTrace",
                            "with no INC given and FIRST after LAST the tool prints nothing (documented: negative increments must be given)"]
        return rep.finish()
    finally:
        b.close()


def replay(path):
    print(open(path).read())
    return 0
