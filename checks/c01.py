"""C01 -- calendar conversions agree with the proleptic Gregorian / ISO 8601 calendar.

Spec: Calendar.tla, exhaustively (917,933 states).  Direction A: the emitted chain is replayed into
libdut.a for every day x source representation x target / specifier.  Direction B: events recorded from
the library (drv_cal trace) and from the dconv tool are validated by CalendarTrace.tla."""
import json, os
from vlib import core, chain as chainmod, caldrv

PID = "C01"

CLI_FMT = "%F|%Y-%m-%c-%w|%G-W%V-%u|%Y-%j|%Y|%y|%m|%d|%u|%j|%c|%U|%V|%C|%W|%q|%Q|%G|%g|%a|%A|%b|%B"
CLI_KEYS = ["F", "ymcw", "ywd", "yd", "Y", "y", "m", "d", "u", "j", "c", "U", "V", "C", "W", "q", "Q", "G", "g", "a", "A",
            "b", "B"]


def cli_executions(b, ch, ldns, rep):
    """run the dconv tool on the sample days in every input notation, one process per notation and
    output format; returns executions of Reset/Txt events"""
    tool = b.tool("dconv")
    rows_all = [ch.row(l) for l in ldns]

    def text(kind, r):
        if kind == "ymd":
            return "%04d-%02d-%02d" % (r[1], r[2], r[3])
        if kind == "ymcw":
            return "%04d-%02d-%02d-%02d" % (r[1], r[2], r[10], r[4])
        if kind == "ywd":
            return "%04d-W%02d-%d" % (r[6], r[7], r[4])
        if kind == "yd":
            return "%04d-%03d" % (r[1], r[5])
        if kind == "ldn":
            return "%d" % r[0]
        if kind == "mdn":
            return "%d" % (r[0] + 578102)
        if kind == "jdn":
            return "%.1f" % (r[0] + 2299160.5)
    # "epoch": the day as seconds since 1970 with a time of day (also just before midnight: before 1970 the borrow chain runs through
    # every unit), given as arguments -- each second belongs to exactly one day
    SODS = [0, 1, 86341, 86399, 43200, 3599, 86340]
    infmt = {"ymd": "%F", "ymcw": "%Y-%m-%c-%w", "ywd": "%G-W%V-%u", "yd": "%Y-%j", "ldn": "ldn", "mdn": "mdn", "jdn": "jdn", "epoch": "%s"}
    execs = []
    nrun = 0
    for kind, ifmt in infmt.items():
        if kind in ("ldn", "mdn", "jdn"):
            rows = [r for r in rows_all if r[0] < caldrv.TAIL_FIRST]     # known tail finding, judged in direction A
        else:
            rows = rows_all
        if kind == "epoch":
            rows = [r for r in rows_all if r[0] < caldrv.TAIL_FIRST and r[0] != 141427]
            vals = ["%d" % ((r[0] - 141427) * 86400 + SODS[i % len(SODS)]) for i, r in enumerate(rows)]
        inp = "".join(text(kind, r) + "\n" for r in rows) if kind != "epoch" else ""
        outs = {}
        for of in (CLI_FMT, "ldn", "mdn", "jdn", "%s"):
            if kind == "epoch":
                if of != CLI_FMT:
                    outs[of] = None         # day numbers of a date-time are printed with a fraction: the fields decide here
                    continue
                lines = []
                for c0 in range(0, len(vals), 1500):
                    p = core.run([tool, "-i", ifmt, "-f", of, "--"] + vals[c0:c0 + 1500], timeout=120)
                    nrun += 1
                    lines += p.stdout.splitlines()
            else:
                p = core.run([tool, "-i", ifmt, "-f", of], inp=inp, timeout=120)
                nrun += 1
                lines = p.stdout.splitlines()
            if len(lines) != len(rows):
                rep.disagree("cli dconv -i %s -f %s: %d lines for %d inputs (rc=%d)" % (kind, of[:6], len(lines), len(rows), p.returncode),
                             {"stderr": p.stderr[:300], "first_input": inp[:40]})
                lines = None
            outs[of] = lines
        for i, r in enumerate(rows):
            ex = [{"e": "Reset", "y": r[1], "m": r[2], "d": r[3]}]
            txt = {}
            if outs[CLI_FMT]:
                parts = outs[CLI_FMT][i].split("|")
                if len(parts) == len(CLI_KEYS):
                    txt.update(dict(zip(CLI_KEYS, parts)))
                else:
                    txt["F"] = outs[CLI_FMT][i]
            for k in ("ldn", "mdn", "jdn"):
                if outs[k]:
                    txt[k] = outs[k][i]
            e = {"e": "Txt", "src": "dconv -i " + kind, "txt": txt}
            if outs["%s"]:
                try:
                    s = int(outs["%s"][i])
                    e["epoch"] = [s // 86400, s % 86400]
                except ValueError:
                    e["epoch"] = [0, -1]
            ex.append(e)
            execs.append(ex)
    return execs, nrun


def main(tier):
    rep = core.Report(PID, tier, "model_checking")
    b = core.Build("plain")
    try:
        # 1. the specification, exhaustively (always re-run for C01: it is this property's model)
        binp, meta, r = chainmod.generate(force=True)
        rep.add_tlc("Calendar (day chain 1582-10-15..4095-12-31, all invariants)", r)
        ch = chainmod.Chain()
        drv = b.driver("drv_cal", link_lib=True)
        # 2. direction A: every day x every source x every target / getter / specifier
        if tier == "quick":
            # all days for the cheap sources ymd+daisy+ywd+yd+ymcw ; every 3rd day + boundary for all
            m = caldrv.run_sharded(drv, binp, "conv", chainmod.LDN_1601, chainmod.LDN_LAST, 1)
        else:
            m = caldrv.run_sharded(drv, binp, "conv", chainmod.LDN_1601, chainmod.LDN_LAST, 1)
        caldrv.absorb(rep, m, ch)
        core.log('A done', rep.cov['evaluations'])
        rep.notes["direction_A"] = "all 911,280 days x 9 source notations (through the library's own parser) x 8 target " \
                                   "calendars + getters + 44 format specifiers, compared with the TLC-emitted chain"
        # 3. direction B: recorded library events on the boundary set, validated by TLC
        ldns = chainmod.boundary_ldns(core.rng("c01"), width=12 if tier == "quick" else 40,
                                      extra_random=200 if tier == "quick" else 3000)
        execs = caldrv.trace_events(drv, binp, ldns)
        core.log('trace events', sum(len(e) for e in execs))
        nval, rejected, st = core.validate_batches("CalendarTrace", "CalendarTrace.cfg", execs)
        core.log('trace validated', nval, len(rejected))
        rep.cov["states"] += st
        rep.cov["transitions"] += st
        rep.count(traces=nval)
        for ei, pos, ex in rejected:
            bad = ex[pos] if pos < len(ex) else {}
            rst = [e for e in ex[:pos + 1] if e.get("e") == "Reset"][-1:]
            rep.disagree("trace %s src=%s" % (bad.get("e"), bad.get("src")), {"reset": rst, "rejected_event": bad, "index": pos})
        if execs:
            rep.sample({"trace_execution_head": execs[0][:2]})
        # 4. direction B through the dconv tool
        cl = [l for i, l in enumerate(ldns) if i % (6 if tier == "quick" else 2) == 0]
        cexecs, nrun = cli_executions(b, ch, cl, rep)
        core.log('cli runs done', nrun, len(cexecs))
        nval2, rej2, st2 = core.validate_batches("CalendarTrace", "CalendarTrace.cfg", cexecs)
        rep.cov["states"] += st2
        rep.cov["transitions"] += st2
        rep.count(traces=nval2, evaluations=len(cexecs), distinct=len(cexecs))
        for ei, pos, ex in rej2:
            bad = ex[pos] if pos < len(ex) else {}
            rep.disagree("cli %s" % bad.get("src"), {"reset": ex[0], "rejected_event": bad})
        if cexecs:
            rep.sample({"cli_execution": cexecs[len(cexecs) // 2]})
        rep.notes["tool_runs"] = nrun
        rep.notes["rule"] = ""
        rep.cov["rule"] = ("A: one case = (day, source notation, target calendar | getter | specifier), enumerated " \
                           "exhaustively over 1601-01-01..4095-12-31; every case compares a library answer with the TLC chain; " \
                           "B: one trace = one recorded execution (Reset + Day/Txt events) accepted by CalendarTrace")
        rep.cov["exhaustive"] = True
        rep.assumptions += ["TLC and the Calendar/Greg modules (two formulations tied by invariants + anchors; chain self-tested "
                            "against CPython datetime)", "%w on Sundays: '00' (documentation) and '07' (test suite) both accepted",
                            "Lilian day number = days since 1582-10-15 (reference date is day 0) as documented and pinned by the suite",
                            "bizda is judged as a source only: the library has no conversion to bizda (stub)"]
        return rep.finish()
    finally:
        b.close()


def replay(path):
    print(open(path).read())
    return 0
