"""C13 -- results do not depend on what was processed before (no hidden state).
Spec: Tool.tla (the law RunAll = concat(RunOne); a sound range cache satisfies it, a poisoning one is refuted),
ZoneImpl.tla (answers independent of the query history, see C12), CycleTable.tla (the static character-class table
answers by the last call only, across counter wraps; without the clearing at the wrap refuted).
A: long seeded histories of the strops searches in one process against libc (crossing the wrap of the counter).
B: for every line-oriented tool and option set, a run on N inputs is compared by ToolTrace.tla with N single runs:
inputs are chosen to prime each piece of state (zone ranges in every order, > 255 needle searches, values with and
without time, unparsable lines between good ones, durations with and without signs)."""
import itertools, os
from vlib import core, tzif, chain as chainmod
from checks import calcommon as cc

PID = "C13"


def run_all_one(tool, args, inputs, mode, env=None):
    """mode 'stdin': inputs are lines; 'args': inputs are arguments.  Returns (all_outs or None, [single outs])"""
    def run(items):
        if mode == "stdin":
            p = core.run([tool] + args, inp="".join(x + "\n" for x in items), timeout=30, env=env)
        else:
            p = core.run([tool] + args + ["--"] + list(items), timeout=30, env=env)
        return p.returncode, p.stdout
    rc, out = run(inputs)
    sr = [run([x]) for x in inputs]
    return Out(out, rc), [Out(o, r) for r, o in sr]


class Out(str):
    """stdout of a run, carrying its exit status"""
    def __new__(cls, text, rc=0):
        o = str.__new__(cls, text)
        o.rc = rc
        return o


def execution(label, inputs, out, singles):
    """split the RunAll output along the single outputs' lengths (a tool prints 0..n lines per input)"""
    outs = []
    pos = 0
    ok = True
    for s in singles:
        seg = out[pos:pos + len(s)]
        outs.append(seg)
        pos += len(s)
    if pos != len(out):
        outs.append(out[pos:])          # surplus output: makes the lengths differ -> rejected
    ex = [{"e": "RunAll", "src": label, "inputs": inputs, "outs": [str(o) for o in outs], "rc": getattr(out, "rc", 0)}]
    for i, s in enumerate(singles):
        ex.append({"e": "RunOne", "src": label, "i": i + 1, "input": inputs[i], "out": str(s), "rc": getattr(s, "rc", 0)})
    if len(outs) != len(singles):
        ex.append({"e": "RunOne", "src": label, "i": len(outs) + 1, "input": "(surplus output of the N-input run)", "out": "", "rc": 0})
    if hasattr(out, "rc"):
        ex.append({"e": "Done", "src": label})
    return ex


def main(tier):
    rep = core.Report(PID, tier, "model_checking")
    b = core.Build("plain")
    try:
        quick = tier == "quick"
        rng = core.rng("c13")
        for mod, cfg, neg, inv in (("Tool", "Tool.cfg", "ToolPoison.cfg", "NoHiddenState"),
                                   ("CycleTable", "CycleTable.cfg", "CycleTableNoWrap.cfg", "Membership")):
            r = core.tlc_must_pass(mod, cfg, workers=8, keep_prints=False)
            rep.add_tlc("%s (%s)" % (mod, cfg), r)
            o = core.tlc(mod, neg, workers=4, keep_prints=False)
            if inv not in o.violated:
                raise core.MachineryError("negative control %s not refuted" % neg)
        r = core.tlc_must_pass("ZoneImpl", "ZoneImpl.cfg", keep_prints=False)
        rep.add_tlc("ZoneImpl (answers independent of the query history)", r)
        rep.notes["negative_controls"] = "ToolPoison.cfg and CycleTableNoWrap.cfg are refuted as required"
        # ---- A: strops histories
        sd = b.driver("drv_strops", link_lib=True)
        p = core.run([sd, str(core.seed()), "3000" if quick else "200000"], timeout=300)
        import json
        for line in p.stdout.splitlines():
            j = json.loads(line)
            if j["e"] == "Summary":
                rep.count(evaluations=j["calls"], distinct=j["calls"])
                if j["bad"]:
                    rep.disagree("strops search differs from libc after a history of calls", {"bad": j["bad"]})
            else:
                rep.sample({"strops_mismatch": j})
        # ---- B: tools
        execs = []
        dconv, dadd, dround, ddiff, dgrep, dzone, dtest = (b.tool(x) for x in ("dconv", "dadd", "dround", "ddiff", "dgrep", "dzone", "dtest"))
        # zones: representatives of table ranges in every order
        zones = tzif.all_zone_files()
        zs = [z for z in zones if len(tzif.TZif(z[1]).trs) >= 4]
        rng.shuffle(zs)
        for name, path in zs[: 25 if quick else 200]:
            z = tzif.TZif(path)
            t = z.trs
            reps = [t[0] - 86400 * 30, (t[0] + t[1]) // 2, (t[1] + t[2]) // 2, t[len(t) // 2] + 3600, t[-1] + 86400 * 400]
            reps = [x for x in reps if -10 ** 10 < x < 6 * 10 ** 10]
            perms = list(itertools.permutations(reps, 3))
            rng.shuffle(perms)
            for pm in perms[: 6 if quick else 24]:
                ins = ["@%d" % x if x >= 0 else None for x in pm]
                if None in ins:
                    # negative epochs cannot be written with @: use civil notation (UTC)
                    import datetime
                    ins = [(datetime.datetime(1970, 1, 1) + datetime.timedelta(seconds=x)).strftime("%Y-%m-%dT%H:%M:%S") for x in pm]
                out, singles = run_all_one(dconv, ["--zone", name, "-f", "%FT%T%Z"], ins, "args")
                execs.append(execution("dconv --zone " + name, ins, out, singles))
                out, singles = run_all_one(dconv, ["--from-zone", name, "-f", "%FT%T"], ins, "stdin")
                execs.append(execution("dconv --from-zone " + name, ins, out, singles))
        # local readings that do not exist (inside a forward jump) or exist twice (inside a backward one), after and before readings from the
        # ranges on either side, in every order: the local -> UTC search iterates on offsets and must not start from what the last value left
        import datetime as _dtz
        ngap = 0
        for name, path in zs[: 25 if quick else 200]:
            z = tzif.TZif(path)
            t = z.trs
            cand = [i for i in range(2, len(t) - 1) if 0 < t[i] < 4 * 10 ** 9 and z.offset_at(t[i] - 1) != z.offset_at(t[i])
                    and t[i] - t[i - 1] > 86400 * 20 and t[i + 1] - t[i] > 86400 * 20]
            for i in cand[-3:]:
                o1, o2 = z.offset_at(t[i] - 1), z.offset_at(t[i])
                mid = t[i] + (o1 + o2) // 2                      # a local reading in the middle of the gap / overlap
                locs = [mid, (t[i - 1] + t[i]) // 2 + o1, (t[i] + t[i + 1]) // 2 + o2, t[i] + o1 - 7200, t[i] + o2 + 7200]
                perms = list(itertools.permutations(locs, 3))
                rng.shuffle(perms)
                perms = [pm for pm in perms if mid in pm and pm[0] != mid][: 4 if quick else 12] + [pm for pm in perms if pm[0] == mid][:1]
                for pm in perms:
                    ins = [(_dtz.datetime(1970, 1, 1) + _dtz.timedelta(seconds=x)).strftime("%Y-%m-%dT%H:%M:%S") for x in pm]
                    for mode in ("args", "stdin"):
                        out, singles = run_all_one(dconv, ["--from-zone", name, "-f", "%FT%T"], ins, mode)
                        execs.append(execution("dconv --from-zone %s (gap/overlap readings, %s)" % (name, mode), ins, out, singles))
                        ngap += 1
        rep.notes["gap_overlap_histories"] = ngap
        # the coordinated scales TAI and GPS answer from the leap-second table: representatives of its stretches in every order, with the
        # last second before each inserted one (the table's own key) among them
        import re as _re, datetime as _dt
        ltab = [int(a) for a, _ in _re.findall(r"<<(\d+), (\d+)>>", open(core.SPEC + "/LeapTab.tla").read())]
        pick = sorted(set([1, 2, len(ltab) - 1] + ([len(ltab) // 2] if quick else list(range(1, len(ltab))))))
        for zname in ("TAI", "GPS"):
            for i in pick:
                d = ltab[i]
                if zname == "GPS" and d * 86400 < 315964800 + 86400 * 400:
                    continue
                reps = [(ltab[i - 1] * 86400 + d * 86400) // 2, d * 86400 - 1, d * 86400, d * 86400 + 86400 * 30, ltab[-1] * 86400 + 86400 * 500]
                perms = list(itertools.permutations(reps, 3))
                rng.shuffle(perms)
                perms = [pm for pm in perms if reps[1] in pm][: 4 if quick else 12] + perms[: 2 if quick else 6]
                for pm in perms:
                    ins = [(_dt.datetime(1970, 1, 1) + _dt.timedelta(seconds=x)).strftime("%Y-%m-%dT%H:%M:%S") for x in pm]
                    for mode in ("args", "stdin"):
                        out, singles = run_all_one(dconv, ["--zone", zname, "-f", "%FT%T"], ins, mode)
                        execs.append(execution("dconv --zone " + zname + " (" + mode + ")", ins, out, singles))
                    out, singles = run_all_one(dconv, ["--from-zone", zname, "-f", "%FT%T"], ins, "stdin")
                    execs.append(execution("dconv --from-zone " + zname, ins, out, singles))
                    out, singles = run_all_one(dzone, [zname], ins, "args")
                    execs.append(execution("dzone " + zname, ins, out, singles))
        # value mixes for the line-oriented tools
        ch = chainmod.Chain()
        days = [ch.fmtF(l) for l in chainmod.boundary_ldns(rng, width=2)[::9]]
        pool = days[:40] + [d + "T12:34:56" for d in days[:20]] + ["2012-W10-4", "2012-03-02-04", "2012-068", "no date here", "2012-02-30",
                                                                   "12:00:00", "", "2012-03-08b", "xx 2012-03-08 yy 2012-03-09"]
        dtest_dummy = None
        specs = [(dconv, ["-f", "%F %a %j"], "stdin"), (dconv, ["-S", "-f", "%G-W%V-%u"], "stdin"), (dconv, ["-i", "%y%m%d", "--base", "2012-01-01"], "stdin"),
                 (dadd, ["+1mo", "-1d"], "stdin"), (dadd, ["-S", "1w"], "stdin"), (dround, ["Mon"], "stdin"), (dround, ["-S", "+1mo"], "stdin"),
                 (ddiff, ["2012-03-08", "-f", "%d days %H hours"], "stdin"), (dgrep, [">=2012-01-01"], "stdin"), (dgrep, ["-v", "<2000-01-01"], "stdin"),
                 (dconv, ["-f", "%s"], "args"), (dzone, ["Europe/Berlin", "Asia/Kathmandu"], "args"), (dadd, ["2012-03-08"], "dur"), (dadd, ["-S", "2012-03-08"], "dur"),
                 (dadd, ["-q", "2012-03-08T10:00:00"], "dur"),
                 # several values as arguments: what is decided for one value (duration type, calendar, format) must not stick to the next
                 (ddiff, ["2012-03-01T12:00:00"], "args"), (ddiff, ["2012-03-01"], "args"), (ddiff, ["2012-03-01T12:00:00", "-f", "%d %H:%M:%S"], "args"),
                 (dadd, ["+1d"], "args"), (dadd, ["+90m"], "args"), (dround, ["Mon"], "args"), (dround, ["/1h"], "args"), (dconv, ["-f", "%F|%T"], "args"),
                 (dtest_dummy, [], "skip")]
        durs = ["1d", "-1d", "1mo", "+2w", "3b", "-1y", "1h", "x1", "/1d", "1d1mo", "-3h", "-1d ", "+1d ", "-1d\t", " 1d", "-", "+", "1d -", "-2w x", "--1d", "1d", "2d", "1d foo", "2w notes", "3h later", "1mo1d x"]
        specs = [x for x in specs if x[2] != "skip"]
        for tool, args, mode in specs:
            for k in range((6 if quick else 60) * (6 if mode == "dur" else 1)):
                n = rng.randrange(2, 7)
                if mode == "dur":
                    ins = [rng.choice(durs) for _ in range(n)]
                    out, singles = run_all_one(tool, args, ins, "stdin")
                elif tool is dzone:
                    ins = [rng.choice(pool[:60]) for _ in range(n)]
                    ins = [x for x in ins if x][:n] or ["2012-03-08"]
                    out, singles = run_all_one(tool, args, ins, "args")
                else:
                    ins = [rng.choice(pool) for _ in range(n)]
                    if mode == "args":
                        ins = [x for x in ins if x] or ["2012-03-08"]
                    out, singles = run_all_one(tool, args, ins, mode)
                execs.append(execution("%s %s" % (os.path.basename(tool), " ".join(args)), ins, out, singles))
        # several input formats that read the same text differently (-i A -i B: the first that fits wins, for every line anew), in every
        # reading mode of the line-oriented tools
        amb = ["01/13/2012", "02/03/2012", "25/03/2012", "13/01/2012", "03/02/2012", "12/12/2012", "no date", "31/12/2011", "12/31/2011", "2/3/2012"]
        fm = ["-i", "%d/%m/%Y", "-i", "%m/%d/%Y"]
        for tool, targs in ((dconv, ["-f", "%F"]), (dadd, ["-f", "%F", "+1d"]), (dround, ["-f", "%F", "Mon"]), (dgrep, [">=2012-02-01"]), (ddiff, ["01/01/2012", "-f", "%d"])):
            for mode_args in ([], ["-E"], ["-S"], ["-E", "-S"]):
                if tool in (dgrep, ddiff) and mode_args:
                    continue
                for k in range(5 if quick else 40):
                    n = rng.randrange(2, 7)
                    ins = [rng.choice(amb) for _ in range(n)]
                    a_ = fm + mode_args + (targs if tool is not ddiff else targs)
                    a_ = ([targs[0]] + fm + targs[1:]) if tool is ddiff else (fm + mode_args + targs)
                    out, singles = run_all_one(tool, a_, ins, "stdin")
                    execs.append(execution("%s %s (two input formats)" % (os.path.basename(tool), " ".join(mode_args) or "lines"), ins, out, singles))
                if not mode_args and tool in (dconv, dadd, dround):
                    for k in range(3 if quick else 20):
                        ins = [x for x in (rng.choice(amb) for _ in range(rng.randrange(2, 6))) if x != "no date"] or ["02/03/2012"]
                        if tool is dconv:
                            out, singles = run_all_one(tool, fm + targs, ins, "args")
                            execs.append(execution("dconv args (two input formats)", ins, out, singles))
        # several zones in one process: the handle cache is keyed by name; names that are prefixes of each other, in both orders
        PAIRS = [("EST", "EST5EDT"), ("NZ", "NZ-CHAT"), ("GB", "GB-Eire"), ("MST", "MST7MDT"), ("Etc/GMT+1", "Etc/GMT+10"), ("Etc/GMT-1", "Etc/GMT-14"),
                 ("Europe/Berlin", "Europe/Berlin"), ("UTC", "UCT"), ("Asia/Kolkata", "Asia/Kathmandu"), ("America/Indiana/Knox", "America/Indiana/Knox_IN" )]
        PAIRS = [pr for pr in PAIRS if all(os.path.exists("/usr/share/zoneinfo/" + z) for z in pr)]
        for a, bz in PAIRS:
            for zs in ([a, bz], [bz, a], [a, bz, a], [bz, bz, a]):
                for when in ("2020-06-01T12:00:00", "2020-01-01T00:00:00"):
                    for extra in ([], ["--next"]):
                        allp = core.run([dzone] + extra + zs + [when], timeout=30)
                        singles = [core.run([dzone] + extra + [z, when], timeout=30) for z in zs]
                        execs.append(execution("dzone %s (zones as inputs) %s" % (" ".join(extra), when), zs, Out(allp.stdout, allp.returncode),
                                               [Out(x.stdout, x.returncode) for x in singles]))
            # the same two zones as --from-zone / --zone of one run against the composition of two runs through UTC
            for fz, tz in ((a, bz), (bz, a)):
                one = core.run([dconv, "--from-zone", fz, "--zone", tz, "-f", "%FT%T", "2020-06-01T12:00:00"], timeout=30)
                mid = core.run([dconv, "--from-zone", fz, "-f", "%FT%T", "2020-06-01T12:00:00"], timeout=30)
                two = core.run([dconv, "--zone", tz, "-f", "%FT%T", mid.stdout.strip() or "x"], timeout=30)
                execs.append(execution("dconv --from-zone A --zone B vs two runs", ["%s>%s" % (fz, tz)], Out(one.stdout, one.returncode), [Out(two.stdout, max(mid.returncode, two.returncode))]))
        # > 255 consecutive needle searches in one process (the generation counter wraps)
        many = [rng.choice(pool[:60]) + " tail" for _ in range(300)]
        out = core.run([dconv, "-S", "-f", "%F"], inp="".join(x + "\n" for x in many), timeout=60).stdout
        cache = {}
        singles = []
        for x in many:
            if x not in cache:
                cache[x] = core.run([dconv, "-S", "-f", "%F"], inp=x + "\n", timeout=20).stdout
            singles.append(cache[x])
        execs.append(execution("dconv -S (300 lines)", many, out, singles))
        rep.notes["tool_runs"] = sum(len(e) for e in execs)
        cc.validate_and_report(rep, "ToolTrace", "ToolTrace.cfg", execs,
                               lambda bad, e: "hidden-state %s" % " ".join(str(bad.get("src", "?")).split()[:2]), "tool_execution")
        rep.cov["rule"] = ("one case = one tool invocation on N inputs (N <= 6; 300 for the needle counter) compared with N single-input runs; "
                           "zone runs use permutations of representatives of 5 table ranges (before the first transition, ranges 0, 1, middle, "
                           "after the last) for 25|200 zones; plus 9000|600000 strops searches in one process against libc")
        rep.assumptions += ["a tool prints its output for input i before reading input i+1 (outputs are split along the single-run lengths)"]
        return rep.finish()
    finally:
        b.close()


def replay(path):
    print(open(path).read())
    return 0
