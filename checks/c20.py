"""C20 -- results depend only on the arguments, not on clock, TZ or locale settings.
Spec: EnvTrace.tla (self-composition: all runs of one invocation under different environments agree), Locale.tla
(parse tables follow the last setilocale, print tables the last setflocale, model-checked over all setter sequences; the
pinned cross-wired setters are refuted) and LocaleTrace.tla.
B: a corpus of fully specified tool invocations (generated ones + those of the repository's .ctst files that qualify) and
underspecified ones with --base is run under a grid of TZ / LANG / LC_ALL / LC_TIME values and fake wall clocks
(LD_PRELOAD shim); setter sequences are driven through the real library with the eight tables read after every call; all
ordered pairs of shipped locales go through dconv/dadd/dround/dseq as (--from-locale, --locale).
Audit binding the model's assumption: the rebuilt tools import no localtime/mktime/strftime/setlocale/tzset and call
getenv only for LOCALE_FILE and TZMAP_DIR."""
import os, re, hashlib, glob, shlex, itertools
from concurrent.futures import ThreadPoolExecutor
from vlib import core
from vlib.zonedrv import LineDriver
from checks import calcommon as cc

PID = "C20"
TOOLS = ["dadd", "dconv", "ddiff", "dgrep", "dround", "dseq", "dsort", "dtest", "dzone"]      # import audit: strptime is a libc wrapper by design
CLOCKS = [None, "0", "946684799", "951825600", "1341100800", "2147483648", "4102444799"]
ENVS = [
    {},
    {"TZ": "UTC"}, {"TZ": "America/New_York"}, {"TZ": "Asia/Kolkata"}, {"TZ": ":/etc/localtime"}, {"TZ": "garbage/zone"},
    {"LANG": "de_DE.UTF-8"}, {"LC_ALL": "tr_TR.UTF-8", "LANG": "C"}, {"LC_TIME": "fr_FR.UTF-8"}, {"LANG": "POSIX", "LC_ALL": "C.utf8"},
    {"TZ": "Pacific/Kiritimati", "LANG": "ja_JP.UTF-8"},
]


def read_locales(path):
    """data/locale -> {name: {lw, aw, lm, am}} with 1-based lists (index 0 unused)"""
    out = {}
    lines = open(path, encoding="utf-8", errors="replace").read().split("\n")
    i = 0
    while i + 4 < len(lines):
        if re.match(r"^[a-z]{2,3}_[A-Z]{2}", lines[i]) and "\t" not in lines[i]:
            nm = lines[i].strip()
            aw, lw, am, lm = (lines[i + k].split("\t") for k in (1, 2, 3, 4))
            if len(aw) == 7 and len(lw) == 7 and len(am) == 12 and len(lm) == 12:
                out[nm] = {"aw": aw, "lw": lw, "am": am, "lm": lm}
            i += 5
        else:
            i += 1
    out["C"] = {"lw": ["Monday", "Tuesday", "Wednesday", "Thursday", "Friday", "Saturday", "Sunday"],
                "aw": ["Mon", "Tue", "Wed", "Thu", "Fri", "Sat", "Sun"],
                "lm": ["January", "February", "March", "April", "May", "June", "July", "August", "September", "October", "November", "December"],
                "am": ["Jan", "Feb", "Mar", "Apr", "May", "Jun", "Jul", "Aug", "Sep", "Oct", "Nov", "Dec"]}
    return out


def corpus(b, rng, quick):
    """[(argv, stdin)] of fully specified invocations, and underspecified ones with --base"""
    c = []
    D = ["2012-03-08", "2000-02-29", "1999-12-31", "2038-01-19", "2012-W10-4", "2012-068", "2012-03-02-04"]
    DT = ["2012-03-08T10:20:30", "1999-12-31T23:59:59", "2012-07-01T00:00:00"]
    T = ["10:20:30", "23:59:59", "00:00:00"]
    for d in D:
        c.append((["dconv", d, "-f", "%A %d %B %Y %j %G-W%V-%u"], None))
        c.append((["dadd", d, "+1mo", "-3d"], None))
        c.append((["dround", d, "Mon"], None))
        c.append((["ddiff", d, "2013-01-01"], None))
        c.append((["dtest", d, "--lt", "2012-03-09"], None))
        c.append((["dseq", d, "3d", "2012-03-20"], None))
        c.append((["dconv", "-f", "ldn"], d + "\n"))
    for d in DT:
        c.append((["dconv", d, "-f", "%s %FT%T %Z"], None))
        c.append((["dconv", "--zone", "Europe/Berlin", d], None))
        c.append((["dconv", "--from-zone", "America/New_York", d], None))
        c.append((["dconv", "--from-zone", "Asia/Tokyo", "--zone", "Europe/London", d, "-f", "%FT%T%Z"], None))
        c.append((["dadd", d, "+90m"], None))
        c.append((["dadd", "--zone", "Australia/Sydney", d, "+1d"], None))
        c.append((["dround", d, "/15m"], None))
        c.append((["ddiff", d, "2012-03-09T00:00:00", "-f", "%d %H:%M:%S"], None))
        c.append((["dzone", "Europe/Berlin", "Asia/Kolkata", d], None))
        c.append((["dzone", "--next", "Europe/Berlin", d], None))
        c.append((["dgrep", ">=2012-01-01"], d + " some text\n1990-01-01 old\n"))
        c.append((["dsort"], "b " + d + "\na 1990-01-01\n"))
        c.append((["dseq", d, "12h", "2012-07-03T00:00:00"], None))
    for t in T:
        c.append((["dconv", t, "-f", "%H.%M.%S %I %p"], None))
        c.append((["dadd", t, "+3700s"], None))
        c.append((["dround", t, "/1h"], None))
        c.append((["ddiff", t, "12:00:00"], None))
        c.append((["dseq", t, "5h", "23:00:00"], None))
        # time-only values with zones are anchored on --base
        c.append((["dconv", "--base", "2012-01-15", "--from-zone", "Europe/Berlin", t], None))
        c.append((["dconv", "--base", "2012-07-15", "--from-zone", "Europe/Berlin", t], None))
        c.append((["dconv", "--base", "2012-01-15", "--zone", "America/New_York", t], None))
        c.append((["dadd", "--base", "2012-07-15", "--from-zone", "Australia/Sydney", t, "+1h"], None))
    # the libc wrapper: the only tool that goes through strptime/strftime/tzset; its results must not follow an exported TZ either
    for v in ("2020-07-01 00:00:00", "2012-01-15 23:59:59"):
        c.append((["strptime", "-i", "%Y-%m-%d %H:%M:%S", "-f", "%s", v], None))
        c.append((["strptime", "-i", "%Y-%m-%d %H:%M:%S", "-f", "%Y-%m-%dT%H:%M:%S %Z %z", v], None))
        c.append((["strptime", "-i", "%Y-%m-%d %H:%M:%S", "-t", v], None))
        c.append((["strptime", "-i", "%Y-%m-%d %H:%M:%S", v], None))
    # underspecified input with --base
    # the base in every notation a value can be written in: seconds since the epoch, date-time, ISO week date, ordinal date, n-th weekday
    for base in ("@1454494272", "@1000000000", "2016-02-03T10:11:12", "2016-W05-3", "2016-034", "2016-02-01-03", "@0"):
        c.append((["dconv", "--base", base, "-i", "%d", "17"], None))
        c.append((["dconv", "--base", base, "-i", "%y-%m-%d", "52-01-01"], None))
        c.append((["dadd", "--base", base, "-i", "%d %b", "8 Mar", "+1d"], None))
        c.append((["dround", "--base", base, "-i", "%m/%d", "03/08", "Fri"], None))
        c.append((["dseq", "--base", base, "-i", "%m-%d", "03-08", "03-10"], None))
        c.append((["ddiff", "-i", "%m-%d", "--base", base, "03-15", "05-15"], None))
    for base in ("2012-01-15", "2012-07-15", "1999-12-31"):
        c.append((["dconv", "--base", base, "-i", "%d", "17"], None))
        c.append((["dconv", "--base", base, "-i", "%m-%d", "03-08"], None))
        c.append((["dconv", "--base", base, "-i", "%y%m%d", "120308"], None))
        c.append((["dconv", "--base", base, "-i", "%a", "Thu"], None))
        c.append((["dadd", "--base", base, "-i", "%d %b", "8 Mar", "+1d"], None))
        c.append((["dround", "--base", base, "-i", "%m/%d", "03/08", "Fri"], None))
        c.append((["dseq", "--base", base, "-i", "%m-%d", "03-08", "03-12"], None))
    # --base must reach every value a tool reads, also the ones that are not on the input lines: the expression of dgrep, the second
    # operand of dtest, the reference of ddiff
    for base in ("2012-01-01", "1999-07-01", "2040-01-01"):
        c.append((["dgrep", "-i", "%m-%d", "--base", base, ">=04-01"], "03-15\n05-15\n12-31\n"))
        c.append((["dgrep", "-i", "%m-%d", "--base", base, "<06-01 && >=02-29"], "03-15\n05-15\n02-29\n"))
        c.append((["dgrep", "-i", "%d %b", "--base", base, "==15 Mar"], "15 Mar x\n16 Mar y\n"))
        c.append((["dtest", "-i", "%m-%d", "--base", base, "03-15", "--lt", "05-15"], None))
        c.append((["dtest", "-i", "%m-%d", "--base", base, "02-29", "--cmp", "03-01"], None))
        c.append((["ddiff", "-i", "%m-%d", "--base", base, "01-01", "-f", "%d"], "03-01\n12-31\n"))
        c.append((["dsort", "-i", "%d.%m.", "--base", base], "31.12. b\n29.02. a\n01.03. c\n"))
        c.append((["dseq", "-i", "%m-%d", "--base", base, "02-27", "03-02", "-f", "%F %a"], None))
        c.append((["dround", "-i", "%m-%d", "--base", base, "02-28", "+1d", "-f", "%F"], None))
    # the repository's own test invocations that are fully specified
    n_ctst = 0
    for f in sorted(glob.glob(os.path.join(core.REPO, "test", "*.ctst"))):
        txt = open(f, errors="replace").read()
        m = re.search(r"^\$ (?:\?\d+ |!\d* ?)?(\w+) (.*?)(?: <<EOF\n(.*?)\nEOF)?$", txt, re.S | re.M)
        if not m:
            continue
        tool, args, stdin = m.group(1), m.group(2).split("\n")[0], m.group(3)
        if tool not in TOOLS or re.search(r"\b(now|today|tomo|yesterday|yday|time)\b", args + (stdin or "")):
            continue
        if re.search(r"(^|\s)(-i|--input-format|-b|--base|--from-locale|--locale)\b", args) or "$" in args or "|" in args or "`" in args:
            continue
        allt = args + " " + (stdin or "")
        if not re.search(r"\d{4}-\d{2}-\d{2}|\d{4}-W\d\d|\d{4}-\d{3}\b", allt):
            continue        # no full date: result legitimately depends on the base
        try:
            argv = shlex.split(args)
        except ValueError:
            continue
        c.append(([tool] + argv, (stdin + "\n") if stdin is not None else None))
        n_ctst += 1
    if quick:
        keep = [x for i, x in enumerate(c) if i < 140 or i % 5 == 0 or "--base" in x[0] or x[0][0] == "strptime"]
        c = keep
    return c, n_ctst


def main(tier):
    rep = core.Report(PID, tier, "model_checking")
    b = core.Build("plain")
    try:
        quick = tier == "quick"
        rng = core.rng("c20")
        r = core.tlc_must_pass("Locale", "Locale.cfg", workers=4, keep_prints=False)
        rep.add_tlc("Locale (ParseByI, PrintByF over all setter sequences)", r)
        o = core.tlc("Locale", "LocaleCross.cfg", workers=2, keep_prints=False)
        if "ParseByI" not in o.violated:
            raise core.MachineryError("negative control failed: cross-wired locale setters not refuted")
        rep.notes["negative_control"] = "LocaleCross.cfg (print setters resetting parse tables) violates ParseByI as required"
        shim = core.shim()
        locfile = os.path.join(b.root, "data", "locale")
        locs = read_locales(locfile)
        # ---------------- import audit (binds the Env model's assumption)
        banned = {"localtime", "localtime_r", "mktime", "timegm", "strftime", "strptime", "setlocale", "tzset", "nl_langinfo", "gmtime", "gmtime_r"}
        for t in TOOLS:
            p = core.run(["nm", "-D", "--undefined-only", b.tool(t)], timeout=30)
            imp = {ln.split()[-1].split("@")[0] for ln in p.stdout.splitlines() if ln.strip()}
            bad = sorted(imp & banned)
            if bad:
                rep.disagree("tool %s imports clock/locale functions of libc" % t, {"imports": bad})
        p = core.run(["ltrace", "-e", "getenv", b.tool("dconv"), "--zone", "Europe/Berlin", "2012-03-08T10:00:00"], timeout=30)
        names = set(re.findall(r'getenv\("([^"]*)"', p.stderr + p.stdout))
        if names - {"LOCALE_FILE", "TZMAP_DIR"}:
            rep.disagree("tool reads environment variables other than LOCALE_FILE / TZMAP_DIR", {"getenv": sorted(names)})
        rep.notes["getenv_seen"] = sorted(names)
        # ---------------- positive control: the fake clock and TZ do reach the tools (else the grid below is vacuous)
        seen = set()
        for ck in ("946684799", "1341100800"):
            pp = core.run([b.tool("dconv"), "now", "-f", "%F"], timeout=20, env={"LD_PRELOAD": shim, "VERIF_FAKE_NOW": ck})
            seen.add(pp.stdout.strip())
        if seen != {"1999-12-31", "2012-07-01"}:
            raise core.MachineryError("fake clock does not reach the tools: dconv now gave %s" % sorted(seen))
        rep.notes["clock_control"] = "dconv now follows the injected clock (1999-12-31 / 2012-07-01)"
        # ---------------- environment grid
        cmds, n_ctst = corpus(b, rng, quick)
        rep.notes["corpus"] = {"commands": len(cmds), "from_ctst": n_ctst}
        grid = []
        for i, e in enumerate(ENVS):
            grid.append((e, CLOCKS[i % len(CLOCKS)]))
        for ck in CLOCKS[1:]:
            grid.append(({}, ck))
        if quick:
            grid = grid[:9] + grid[-3:]

        def run_one(job):
            ci, (argv, stdin), (env, clock) = job
            e = {"LD_PRELOAD": shim, "LOCALE_FILE": locfile}
            for k in ("TZ", "LANG", "LC_ALL", "LC_TIME"):
                e[k] = env.get(k, "")
            if clock is not None:
                e["VERIF_FAKE_NOW"] = clock
            full = dict(os.environ)
            for k in ("TZ", "LANG", "LC_ALL", "LC_TIME", "VERIF_FAKE_NOW"):
                full.pop(k, None)
            full.update({k: v for k, v in e.items() if v != ""})
            import subprocess
            try:
                p = subprocess.run([b.tool(argv[0])] + argv[1:], input=(stdin or "").encode(), stdout=subprocess.PIPE, stderr=subprocess.PIPE,
                                   timeout=20, env=full)
                return ci, env, clock, hashlib.sha1(p.stdout).hexdigest()[:12], p.returncode, p.stdout[:80].decode("utf-8", "replace")
            except subprocess.TimeoutExpired:
                return ci, env, clock, "timeout", 124, ""
        jobs = [(ci, c, g) for ci, c in enumerate(cmds) for g in grid]
        per = {}
        with ThreadPoolExecutor(max_workers=core.NCPU) as ex:
            for ci, env, clock, h, rc, head in ex.map(run_one, jobs):
                per.setdefault(ci, []).append({"e": "Run", "env": " ".join("%s=%s" % kv for kv in sorted(env.items())) or "-", "clock": clock or "real",
                                               "out": h, "rc": rc, "head": head})
        execs = []
        for ci, runs in sorted(per.items()):
            execs.append([{"e": "Cmd", "cmd": " ".join(cmds[ci][0]), "stdin": (cmds[ci][1] or "")[:60]}] + runs)
        rep.notes["tool_runs"] = len(jobs)

        def ekey(bad, ex):
            cmd = ex[0]["cmd"]
            dims = sorted(x.split("=")[0] for x in bad.get("env", "-").split() if "=" in x)
            if len(ex) > 1 and bad.get("clock") != ex[1].get("clock"):
                dims.append("clock")
            dim = "/".join(dims) or "rerun"
            return "env-dependence %s (%s%s)" % (cmd.split()[0], dim, ", --base given" if "--base" in cmd else "")
        cc.validate_and_report(rep, "EnvTrace", "EnvTrace.cfg", execs, ekey, "env_group", group=lambda ex: ex[0]["cmd"].split()[0])
        # ---------------- locale setter sequences through the library
        names_path = os.path.join(core.scratch("c20names"), "names.json")
        import json
        json.dump(locs, open(names_path, "w"))
        drv = b.driver("drv_locale", link_lib=True)
        use = [l for l in ("de_DE", "fr_FR", "tr_TR", "ja_JP", "ru_RU", "es_ES") if l in locs]
        lexecs = []
        seqs = [sq for n in (1, 2, 3, 4) for sq in itertools.product(["I", "F", "RI", "RF"], repeat=n)]
        rng.shuffle(seqs)
        for sq in seqs[: 40 if quick else len(seqs)]:
            d = LineDriver(drv, timeout=3.0, env={"LOCALE_FILE": locfile})
            chosen = [rng.choice(use) for _ in sq]
            ex = [{"e": "Reset"}, d.cmd("T")]
            for op, lc in zip(sq, chosen):
                if op in ("I", "F"):
                    t = d.cmd("%s %s" % (op, lc))
                    ex.append({"e": "SetI" if op == "I" else "SetF", "loc": lc})
                else:
                    t = d.cmd(op)
                    ex.append({"e": "ResetI" if op == "RI" else "ResetF"})
                ex.append(t if isinstance(t, dict) else {"e": "Tables", "p": [str(t)] * 4, "f": [str(t)] * 4})
            d.close()
            lexecs.append(ex)
        # ---------------- ordered pairs of shipped locales through the tools
        def prefix_free(xs):
            return len(set(xs)) == len(xs) and not any(x != y and y.startswith(x) for x in xs for y in xs)
        outs = sorted(l for l in locs if l != "C")
        ins = sorted(l for l in outs if prefix_free(locs[l]["lm"]) and all(x.strip() and not re.search(r"[\d%]", x) for x in locs[l]["lm"]))
        rng.shuffle(ins)
        rng.shuffle(outs)
        if quick:
            ins, outs = ins[:6], outs[:16]
        ins = ["C"] + ins
        outs = ["C"] + outs
        rep.notes["locales"] = {"shipped": len(locs) - 1, "as_input": len(ins), "as_output": len(outs)}
        pjobs = []
        for a in ins:
            for bb in outs:
                for tool in ("dconv", "dadd", "dround", "dseq"):
                    if not quick and tool != "dconv" and (hash((a, bb)) % 4):
                        pass    # all four tools on all pairs in the thorough tier as well
                    for order in (0, 1):
                        if order == 1 and (a == "C" or bb == "C"):
                            continue
                        if quick and order == 1 and tool in ("dround", "dseq"):
                            continue
                        pjobs.append((a, bb, tool, order))
                    # sed mode: the value sits inside a line and is found by the line scanner, whose search window for a month name
                    # comes from the *input* names -- the output locale must not move it
                    if tool != "dseq" and (not quick or hash((a, bb, tool)) % 2 == 0 or a == "C"):
                        pjobs.append((a, bb, tool, 2))

        def run_pair(job):
            a, bb, tool, order = job
            inm = locs[a]["lm"][11]           # 4 December 2012 is a Tuesday
            txt = "4 %s 2012" % inm
            oi = ["--from-locale", a] if a != "C" else []
            of = ["--locale", bb] if bb != "C" else []
            opts = (of + oi) if order == 1 else (oi + of)
            base = opts + ["-i", "%d %B %Y", "-f", "%A|%a|%B|%b"]
            w = 2
            stdin = None
            if order == 2:
                argv = [tool] + opts + ["-S", "-i", "%B/%d %Y", "-f", "%A|%a|%B|%b"] + (["+1d"] if tool == "dadd" else ["4d"] if tool == "dround" else [])
                stdin = "x %s/04 2012 y\n" % inm
                w = 3 if tool == "dadd" else 2
            elif tool == "dseq":
                argv = [tool] + base + [txt, txt]
            elif tool == "dround":
                argv = [tool] + base + [txt, "4d"]
            elif tool == "dadd":
                argv = [tool] + base + [txt, "+1d"]
                w = 3
            else:
                argv = [tool] + base + [txt]
            p = core.run([b.tool(tool)] + argv[1:], timeout=20, env={"LOCALE_FILE": locfile}, inp=stdin)
            first = p.stdout.split("\n")[0] if p.stdout.strip() else "|||"
            if order == 2:
                first = first[2:-2] if first.startswith("x ") and first.endswith(" y") else "|||"
            parts = first.split("|")
            parts += [""] * (4 - len(parts))
            evs = [{"e": "Reset"}]
            for o in ([("SetF", bb), ("SetI", a)] if order == 1 else [("SetI", a), ("SetF", bb)]):
                if o[1] != "C":
                    evs.append({"e": o[0], "loc": o[1]})
            evs.append({"e": "Conv", "cmd": " ".join(argv), "tool": tool, "min": 12, "inm": inm, "m": 12, "w": w,
                        "outw": parts[0], "outaw": parts[1], "outm": parts[2], "outam": parts[3], "rc": p.returncode})
            return evs
        def run_sel(a):
            # dgrep: the expression is input too and is read with the --from-locale names
            dec, nov = locs[a]["lm"][11], locs[a]["lm"][10]
            argv = ["dgrep"] + (["--from-locale", a] if a != "C" else []) + ["-i", "%d %B %Y", ">=1 %s 2012" % dec]
            p = core.run([b.tool("dgrep")] + argv[1:], timeout=20, env={"LOCALE_FILE": locfile}, inp="4 %s 2012\n4 %s 2012\n" % (dec, nov))
            outl = p.stdout.split("\n")
            evs = [{"e": "Reset"}] + ([{"e": "SetI", "loc": a}] if a != "C" else [])
            evs.append({"e": "Sel", "cmd": " ".join(argv), "tool": "dgrep", "min": 12, "inm": dec, "sel": ["4 %s 2012" % dec in outl, "4 %s 2012" % nov in outl],
                        "want": [True, False], "rc": p.returncode})
            return evs
        def run_names(job):
            # every entry of every parse table, written into a line and found there by the scanner: the search window in front of the
            # needle is derived from the shortest and longest name of the table, so each name (the first of its line too) must be reachable
            a, tab = job
            nms = locs[a][tab]
            if not prefix_free(nms) or not all(x.strip() and not re.search(r"[\d%/.]", x) for x in nms):
                return None
            spec = {"lm": "%B", "am": "%b", "lw": "%A", "aw": "%a"}[tab]
            if tab in ("lm", "am"):
                fmt, lines, want = spec + "/%d %Y", ["x %s/04 2012 y" % n for n in nms], ["x 2012-%02d-04 y" % (i + 1) for i in range(12)]
            else:
                fmt, lines, want = spec + " %d.%m.%Y", ["x %s %02d.12.2012 y" % (n, 3 + i) for i, n in enumerate(nms)], ["x 2012-12-%02d y" % (3 + i) for i in range(7)]
            argv = ["dconv"] + (["--from-locale", a] if a != "C" else []) + ["-S", "-i", fmt, "-f", "%F"]
            p = core.run([b.tool("dconv")] + argv[1:], timeout=20, env={"LOCALE_FILE": locfile}, inp="".join(x + "\n" for x in lines))
            outl = p.stdout.split("\n")
            outl += [""] * (len(lines) - len(outl))
            evs = [{"e": "Reset"}] + ([{"e": "SetI", "loc": a}] if a != "C" else [])
            for i, n in enumerate(nms):
                evs.append({"e": "Name", "cmd": " ".join(argv), "tool": "dconv-names", "tab": tab, "idx": i + 1, "inm": n, "got": outl[i], "want": want[i], "rc": p.returncode})
            return evs
        njobs = [(a, tab) for a in (sorted(locs) if not quick else sorted(locs)[::3] + ["C", "de_DE", "es_ES"]) if a in locs for tab in ("lm", "am", "lw", "aw")]
        with ThreadPoolExecutor(max_workers=core.NCPU) as ex:
            pexecs = list(ex.map(run_pair, pjobs))
            nexecs = [e for e in ex.map(run_names, njobs) if e]
            pexecs += nexecs
            rep.notes["locale_name_runs"] = len(nexecs)
            pexecs += list(ex.map(run_sel, [a for a in ins if a == "C" or locs[a]["lm"][11] != locs[a]["lm"][10]]))
        rep.notes["locale_pair_runs"] = len(pexecs)

        def lkey(bad, ex):
            if bad.get("e") == "Name":
                return "locale dconv -S --from-locale: a name of the %s table is not found in a line" % bad.get("tab")
            if bad.get("e") == "Sel":
                return "locale dgrep --from-locale: expression operand not read with the input locale"
            if bad.get("e") == "Conv":
                given = "+".join({"SetI": "--from-locale", "SetF": "--locale"}[e["e"]] for e in ex[1:-1]) or "no locale option"
                return "locale %s%s with %s: wrong or missing names" % (bad.get("tool"), " -S" if " -S " in bad.get("cmd", "") else "", given)
            return "locale setters: tables after %s" % "/".join(e["e"] for e in ex[2:] if e["e"] != "Tables")[:60]
        cc.validate_and_report(rep, "LocaleTrace", "LocaleTrace.cfg", lexecs + pexecs, lkey, "locale_execution",
                               group=lambda ex: ex[-1].get("tool", "setters"), env={"NAMES": names_path})
        rep.cov["rule"] = ("env: one trace = one tool invocation run under 12|17 environments (TZ x LANG/LC_* x fake clock); corpus = generated fully "
                           "specified invocations of all nine tools, underspecified ones with --base, and the qualifying .ctst command lines; locale: "
                           "setter sequences of length <= 4 over 6 locales (40 seeded | all 340) with all eight tables read back; (6|all prefix-free) input x "
                           "(16|all) output locales, incl. only one of the two options, x {dconv,dadd,dround,dseq} x both option orders")
        rep.assumptions += ["only C, C.utf8 and POSIX are installed: the libc side of LANG/LC_* is bound by the import audit (no setlocale/strftime/"
                            "localtime imports) rather than by differing libc output",
                            "the fake clock is injected through LD_PRELOAD (time, gettimeofday, clock_gettime)"]
        return rep.finish()
    finally:
        b.close()


def replay(path):
    print(open(path).read())
    return 0
