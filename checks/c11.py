"""C11 -- time-of-day and epoch arithmetic is exact across midnight.
Spec: Clock.tla -- AddS by floor division (S) and the carry mechanism of dt_dtadd/dt_tadd_s incl. the 4-bit carry slot
(I), Refines checked exhaustively with the day scaled to 6 seconds and |k| <= 10 days; without the pre-split the slot
overflows (negative control).  A: dt_dtadd / dt_dtdiff / %s / @N / 24:00:00 replayed against <<chain day, sod>> arithmetic.
B: dadd +Ns|m|h, ddiff -f %S, dconv -f %s / -i %s runs validated by ClockTrace.tla."""
from vlib import core, chain as chainmod, caldrv
from checks import calcommon as cc

PID = "C11"
SODS = [0, 1, 59, 3599, 3600, 43199, 43200, 86398, 86399]
U0 = 141427        # chain day of 1970-01-01


def hms(s):
    return "%02d:%02d:%02d" % (s // 3600, s // 60 % 60, s % 60)


def parse_dt(ch, txt):
    """'YYYY-MM-DDTHH:MM:SS' -> [chain day, sod]"""
    import re
    m = re.match(r"(\d{4})-(\d\d)-(\d\d)T(\d\d):(\d\d):(\d\d)$", txt)
    if not m:
        return [-1, -1]
    y, mo, d, H, M, S = map(int, m.groups())
    try:
        return [ch.ldn_of(y, mo, d), H * 3600 + M * 60 + S]
    except ValueError:
        return [-1, -1]


def split(n):
    """n seconds -> (dq, dr) with n = dq*86400 + dr, |dr| < 86400 (keeps TLC inside 32 bits)"""
    q = abs(n) // 86400
    r = abs(n) % 86400
    return (q, r) if n >= 0 else (-q, -r)


def main(tier):
    rep = core.Report(PID, tier, "model_checking")
    b = core.Build("plain")
    try:
        quick = tier == "quick"
        rng = core.rng("c11")
        r = core.tlc_must_pass("Clock", "Clock.cfg", workers=8, keep_prints=False)
        rep.add_tlc("Clock (carry mechanism refines AddS; Inverse, EpochRT, MilOK; D=6, |k|<=60)", r)
        o = core.tlc("Clock", "ClockNoSplit.cfg", workers=4, keep_prints=False)
        if "Refines" not in o.violated:
            raise core.MachineryError("negative control failed: carry slot overflow not refuted")
        rep.notes["negative_control"] = "ClockNoSplit.cfg (no pre-split of the seconds) violates Refines as required"
        ch = chainmod.Chain()
        rep.notes["chain"] = {"source": "TLC run of spec/Calendar.tla (cached by spec hash)", **ch.meta}
        drv = b.driver("drv_cal", link_lib=True)
        bnd = chainmod.boundary_ldns(core.rng("c11"), width=3 if quick else 12)
        plan = [dict(mode="clock", step=211 if quick else 5, args=(1 if quick else 6,), exhaustive=False),
                dict(mode="clock", ranges=cc.windows(bnd), args=(0 if quick else 2,), exhaustive=False, prefix="bnd ")]
        cc.run_plan(rep, b, ch, drv, plan)
        # ---- B: the tools
        dadd, ddiff, dconv = b.tool("dadd"), b.tool("ddiff"), b.tool("dconv")
        days = [l for l in bnd if l < caldrv.TAIL_FIRST - 10][:: 25 if quick else 2]
        pts = [(l, rng.choice(SODS)) for l in days] + [(l, 86399) for l in days[::7]] + [(l, 0) for l in days[::7]]
        ev = []
        nrun = 0
        inp = "".join("%sT%s\n" % (ch.fmtF(l), hms(s)) for l, s in pts)
        for n, unit, mult in [(1, "s", 1), (-1, "s", 1), (61, "s", 1), (-3601, "s", 1), (86400, "s", 1), (-86401, "s", 1), (604801, "s", 1),
                              (2147483647, "s", 1), (-2147483647, "s", 1), (1, "m", 60), (-1441, "m", 60), (100000, "m", 60), (25, "h", 3600),
                              (-49, "h", 3600), (-1, "h", 3600), (500000, "h", 3600)]:
            rc, lines, err = cc.tool_lines(dadd, ["%+d%s" % (n, unit)], inp)
            nrun += 1
            if len(lines) != len(pts):
                rep.disagree("cli dadd %+d%s: %d lines for %d inputs" % (n, unit, len(lines), len(pts)), {"stderr": err[:200]})
                continue
            dq, dr = split(n * mult)
            for (l, s), got in zip(pts, lines):
                tl = l + (l * 86400 + s + n * mult) // 86400 - l
                if not (chainmod.LDN_1601 <= (l * 86400 + s + n * mult) // 86400 < caldrv.TAIL_FIRST):
                    continue
                ev.append({"e": "Add", "src": "dadd %+d%s" % (n, unit), "t": [l, s], "dq": dq, "dr": dr, "res": parse_dt(ch, got), "out": got})
        # several durations in one run (each one is added to the result of the one before; a carry left behind by the first must not
        # be counted again by the second), whole days written in h/m/s, zero, and operands that were shifted from a UTC offset first
        combos = [[(2, "h"), (24, "h")], [(-2, "h"), (-24, "h")], [(2, "h"), (0, "s")], [(3600, "s"), (86400, "s")], [(90, "m"), (1440, "m")],
                  [(24, "h"), (2, "h")], [(-1, "s"), (-86400, "s")], [(1, "s"), (172800, "s")], [(23, "h"), (1, "h"), (24, "h")], [(-1, "s"), (0, "s"), (48, "h")],
                  [(86399, "s"), (1, "s"), (2880, "m")], [(-86400, "s"), (86400, "s")], [(12, "h"), (12, "h"), (-24, "h")]]
        MULT = {"s": 1, "m": 60, "h": 3600}
        for combo in combos:
            for sfx, shift in (("", 0), ("+01:00", -3600), ("-09:30", 34200), ("+14:00", -50400)):
                if sfx and quick and len(combo) > 2:
                    continue
                inp2 = "".join("%sT%s%s\n" % (ch.fmtF(l), hms(s_), sfx) for l, s_ in pts)
                args = ["%+d%s" % (n, u) for n, u in combo]
                rc, lines, err = cc.tool_lines(dadd, args, inp2)
                nrun += 1
                if len(lines) != len(pts):
                    rep.disagree("cli dadd %s: %d lines for %d inputs" % (" ".join(args), len(lines), len(pts)), {"stderr": err[:200], "suffix": sfx})
                    continue
                tot = sum(n * MULT[u] for n, u in combo) + shift
                dq, dr = split(tot)
                for (l, s_), got in zip(pts, lines):
                    if not (chainmod.LDN_1601 + 2 <= (l * 86400 + s_ + tot) // 86400 < caldrv.TAIL_FIRST - 2):
                        continue
                    ev.append({"e": "Add", "src": "dadd %s%s" % (" ".join(args), " (input %s)" % sfx if sfx else ""), "t": [l, s_], "dq": dq, "dr": dr,
                               "res": parse_dt(ch, got), "out": got})
        # the date-time on the command line and one duration per stdin line: every accepted line is added to the same start value, lines
        # that are refused (some of them after a readable h/m/s component) contribute nothing, neither to their own nor to a later line
        # (a bare number counts days: '1h 1' is 25 hours)
        dlines = [("1h foo", None), ("30m", 1800), ("45m later", None), ("-2h bar", None), ("10s", 10), ("x", None), ("-86400s", -86400), ("1h 1", 90000), ("25h", 90000),
                  ("90m -", None), ("-1s", -1), ("3600s", 3600), ("2h+", None), ("0s", 0), ("86399s", 86399), ("24h x", None), ("24h", 86400)]
        for l, s_ in pts[:: 3 if quick else 1][:60]:
            start = "%sT%s" % (ch.fmtF(l), hms(s_))
            p = core.run([dadd, start], inp="".join(x + "\n" for x, _ in dlines), timeout=30)
            nrun += 1
            outs = p.stdout.splitlines()
            acc = [(x, n) for x, n in dlines if n is not None]
            if len(outs) != len(acc):
                rep.disagree("cli dadd DATE with durations on stdin: %d lines for %d acceptable durations" % (len(outs), len(acc)), {"start": start, "stderr": p.stderr[:200]})
                continue
            for (x, n), got in zip(acc, outs):
                if not (chainmod.LDN_1601 + 2 <= (l * 86400 + s_ + n) // 86400 < caldrv.TAIL_FIRST - 2):
                    continue
                dq, dr = split(n)
                ev.append({"e": "Add", "src": "dadd-stdin-durations", "t": [l, s_], "dq": dq, "dr": dr, "res": parse_dt(ch, got), "out": got, "line": x})
        # the operand as seconds since the epoch (@N, -i %s N): the same additions, both signs
        eps = [(l, s_) for l, s_ in pts if (l - U0) * 86400 + s_ > 0][:: 9 if quick else 2][:60]
        for n, unit in ((-1, "s"), (1, "s"), (-3600, "s"), (-30, "m"), (-1, "h"), (25, "h"), (-86401, "s"), (-2147483647, "s"), (90, "m")):
            for l, s_ in eps:
                v = (l - U0) * 86400 + s_
                tot = n * MULT[unit]
                if not (chainmod.LDN_1601 + 2 <= (l * 86400 + s_ + tot) // 86400 < caldrv.TAIL_FIRST - 2):
                    continue
                dq, dr = split(tot)
                for how, args in (("@N", ["--", "@%d" % v, "%+d%s" % (n, unit)]), ("-i %s", ["-i", "%s", "-f", "%FT%T", "--", "%d" % v, "%+d%s" % (n, unit)])):
                    p = core.run([dadd] + args, timeout=20)
                    nrun += 1
                    got = p.stdout.strip()
                    ev.append({"e": "Add", "src": "dadd-epoch-operand %s" % how, "t": [l, s_], "dq": dq, "dr": dr, "res": parse_dt(ch, got), "out": got, "cmd": " ".join(args)})
        # differences in seconds, near and far (more than 2^31 s apart too)
        for i in range(300 if quick else 30000):
            (la, sa) = rng.choice(pts)
            far = rng.random() < 0.4
            lb = rng.randrange(chainmod.LDN_1601, caldrv.TAIL_FIRST) if far else la + rng.choice([0, 1, -1, 7, -30, 366])
            lb = max(chainmod.LDN_1601, min(caldrv.TAIL_FIRST - 1, lb))
            sb = rng.choice(SODS)
            A, B = "%sT%s" % (ch.fmtF(la), hms(sa)), "%sT%s" % (ch.fmtF(lb), hms(sb))
            # a third of the pairs in mixed notation: one operand as seconds since the epoch, the other civil
            mixed = i % 3
            if mixed == 1:
                A = "@%d" % ((la - 141427) * 86400 + sa)
            elif mixed == 2:
                B = "@%d" % ((lb - 141427) * 86400 + sb)
            p = core.run([ddiff, "-f", "%S", "--", A, B], timeout=20)
            nrun += 1
            try:
                rv = int(p.stdout.strip())
            except ValueError:
                rv = None
            if rv is None:
                rep.disagree("cli ddiff -f %S: unparsable output", {"A": A, "B": B, "out": p.stdout[:80], "rc": p.returncode})
                continue
            rd, rs = split(rv)
            ev.append({"e": "Diff", "src": "ddiff -f %S", "a": [la, sa], "b": [lb, sb], "rd": rd, "rs": rs, "A": A, "B": B, "out": rv})
        # epoch out / in
        rc, lines, err = cc.tool_lines(dconv, ["-f", "%s"], inp)
        nrun += 1
        if len(lines) == len(pts):
            for (l, s), got in zip(pts, lines):
                try:
                    ed, es = split(int(got))
                except ValueError:
                    ed, es = 0, -1
                ev.append({"e": "EpochOut", "src": "dconv -f %s", "t": [l, s], "u0": U0, "ed": ed, "es": es, "out": got})
        else:
            rep.disagree("cli dconv -f %%s: %d lines for %d inputs" % (len(lines), len(pts)), {"stderr": err[:200]})
        # epoch input: as command-line arguments (stdin lines go through the needle search, probed separately below)
        for fmt, pre in (("%s", ""), (None, "@")):
            ps = [(l, s) for l, s in pts if not (pre == "@" and (l - U0) * 86400 + s < 0) and (l - U0) * 86400 + s != 0]
            args = ["%s%d" % (pre, (l - U0) * 86400 + s) for l, s in ps]
            p = core.run([dconv] + (["-i", fmt] if fmt else []) + ["-f", "%FT%T", "--"] + args, timeout=60)
            lines = p.stdout.splitlines()
            nrun += 1
            if len(lines) == len(ps):
                for (l, s), got in zip(ps, lines):
                    ed, es = split((l - U0) * 86400 + s)
                    ev.append({"e": "EpochIn", "src": "dconv %s" % (fmt or "@N"), "u0": U0, "ed": ed, "es": es, "t": parse_dt(ch, got), "out": got})
            else:
                rep.disagree("cli dconv epoch input %s: %d lines for %d inputs" % (fmt or "@N", len(lines), len(ps)), {"stderr": p.stderr[:200]})
        # probes of two input corner cases
        p = core.run([dconv, "-i", "%s", "-f", "%FT%T", "0"], timeout=20)
        if p.stdout.strip() != "1970-01-01T00:00:00":
            rep.disagree("epoch-in %s value 0 refused", {"cmd": "dconv -i %s -f %FT%T 0", "out": p.stdout.strip(), "rc": p.returncode})
        p = core.run([dconv, "-i", "%s", "-f", "%FT%T"], inp="-86400\n", timeout=20)
        if p.stdout.strip() != "1969-12-31T00:00:00":
            rep.disagree("epoch-in negative value on a stdin line loses its sign", {"cmd": "echo -86400 | dconv -i %s -f %FT%T", "out": p.stdout.strip()})
        minp = "".join("%sT24:00:00\n" % ch.fmtF(l) for l in days)
        rc, lines, err = cc.tool_lines(dconv, ["-f", "%F %M:%S"], minp)
        nrun += 1
        if len(lines) == len(days):
            for l, got in zip(days, lines):
                ev.append({"e": "Mil", "src": "dconv T24:00:00", "day": l, "res": parse_dt(ch, got.replace(" ", "T00:")), "out": got})
        # the epoch value of a 24:00:00 reading, printed next to the hour it was written with (the formatter then keeps hour 24 instead of
        # rolling the value over first): still the seconds of 00:00:00 of the following day
        for mfmt, pick in (("%s %T", 0), ("%H %s", 1), ("%s", 0), ("%T @%s %F", 1)):
            rc, lines, err = cc.tool_lines(dconv, ["-f", mfmt], minp)
            nrun += 1
            if len(lines) != len(days):
                rep.disagree("cli dconv -f '%s' on 24:00:00: %d lines for %d inputs" % (mfmt, len(lines), len(days)), {"stderr": err[:200]})
                continue
            for l, got in zip(days, lines):
                try:
                    ed, es = split(int(got.split()[pick].lstrip("@")))
                except (ValueError, IndexError):
                    ed, es = 0, -1
                ev.append({"e": "EpochOut", "src": "dconv T24:00:00 -f '%s'" % mfmt, "t": [l + 1, 0], "u0": U0, "ed": ed, "es": es, "out": got})
        rep.notes["tool_runs"] = nrun
        execs = [[e] for e in ev]
        cc.validate_and_report(rep, "ClockTrace", "ClockTrace.cfg", execs, lambda bad, e: ("cli dadd several durations" + (" after an offset shift" if "(input" in bad["src"] else ""))
                               if bad.get("src", "").startswith("dadd ") and bad["src"].count(" ") >= 2 else "cli %s" % " ".join(bad.get("src", "?").split()[:2]),
                               "tool_event")
        rep.cov["rule"] = ("A: one case = (day, second of day, notation, signed count in s|m|h up to 2^31-1 s) for additions, a pair of "
                           "date-times (adjacent, > 68 years apart, seeded) for differences, an epoch value in/out, a 24:00:00 reading; "
                           "days: every 211th|23rd + the boundary windows; B: one event = one line of a dadd/ddiff/dconv run")
        rep.assumptions += ["Unix value of a date-time = (chain day - 141427) * 86400 + second of day",
                            "epoch input beyond the day-count tail (4094-05-05) is covered by the C01 finding, not judged here"]
        return rep.finish()
    finally:
        b.close()


def replay(path):
    print(open(path).read())
    return 0
