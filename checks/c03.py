"""C03 -- adding days or weeks is exact in every calendar.
Spec: DateArith.tla (DayExact: day/week steps are index arithmetic; inverse/additivity follow) + the Calendar chain.
A: every day x 9 notations x signed counts replayed against the chain; TLC behaviours replayed through dadd.
B: dadd tool runs in every notation validated by CalendarTrace."""
from vlib import core, chain as chainmod, caldrv
from checks import calcommon as cc

PID = "C03"


def cli_adds(rep, b, ch, ldns, ks):
    """dadd in every input notation: (day, k) -> output text; as Reset(target day)+Txt events for CalendarTrace"""
    execs = []
    tool = b.tool("dadd")
    nrun = 0
    def spell(kind, r):
        # "ymcw0": the n-th Sunday written with weekday 0 (%w takes 0 and 7 for Sunday; the value is then held with a 0 in its weekday slot)
        return cc.fmt_row("ymcw", r)[:-2] + "00" if kind == "ymcw0" else cc.fmt_row(kind, r)
    for kind in ("ymd", "ymcw", "ywd", "yd", "ldn", "ymcw0"):
        nota = "ymcw" if kind == "ymcw0" else kind
        for k in (ks if kind != "ymcw0" else sorted(set(list(ks) + [2, 3, 4, 5, 6, 7, 10, -3]))):
            for unit, mult in (("d", 1), ("w", 7)):
                rows = [(l, ch.row(l)) for l in ldns
                        if chainmod.LDN_1601 <= l + mult * k <= (caldrv.TAIL_FIRST - 1 if kind == "ldn" else chainmod.LDN_LAST)]
                if kind == "ymcw0":
                    # every Sunday next to the sampled days
                    rows = [(l + 7 - r[4], ch.row(l + 7 - r[4])) for l, r in rows
                            if l + 7 - r[4] <= chainmod.LDN_LAST - 7 and chainmod.LDN_1601 <= l + 7 - r[4] + mult * k <= chainmod.LDN_LAST - 7]
                inp = "".join(spell(kind, r) + "\n" for _, r in rows)
                rc, lines, err = cc.tool_lines(tool, ["-i", cc.INFMT[nota], "%+d%s" % (k, unit)], inp)
                nrun += 1
                if len(lines) != len(rows):
                    rep.disagree("cli dadd -i %s %+d%s: %d lines for %d inputs" % (kind, k, unit, len(lines), len(rows)), {"stderr": err[:200]})
                    continue
                for (l, r), got in zip(rows, lines):
                    if kind == "ymcw0" and got.endswith("-00"):
                        got = got[:-2] + "07"       # a week step keeps the weekday slot as it was written: 00 and 07 both denote the Sunday
                    t = ch.row(l + mult * k)
                    execs.append([{"e": "Reset", "y": t[1], "m": t[2], "d": t[3]},
                                  {"e": "Txt", "src": "dadd -i %s %+d%s" % (kind, k, unit), "in": spell(kind, r),
                                   "txt": {cc.OUTKEY[nota]: got}}])
    rep.notes["tool_runs"] = rep.notes.get("tool_runs", 0) + nrun
    return execs


def main(tier):
    rep = core.Report(PID, tier, "model_checking")
    b = core.Build("plain")
    try:
        ch = chainmod.Chain()
        rep.notes["chain"] = {"source": "TLC run of spec/Calendar.tla (cached by spec hash, regenerated when stale)", **ch.meta}
        drv = b.driver("drv_cal", link_lib=True)
        beh = cc.datearith_behaviours(rep, "DateArith.cfg" if tier == "quick" else "DateArithThorough.cfg")
        cc.replay_datearith(rep, b, beh, {"d", "w"}, "datearith")
        quick = tier == "quick"
        bnd = chainmod.boundary_ldns(core.rng("c03"), width=40, extra_random=0)
        plan = [dict(mode="addd", step=1, args=(1 if quick else 6, 97 if quick else 11), exhaustive=False)]
        if not quick:
            plan.append(dict(mode="addd", ranges=cc.windows(bnd), args=(200, 1), exhaustive=False, prefix="bnd "))
        cc.run_plan(rep, b, ch, drv, plan)
        sample = [l for i, l in enumerate(bnd) if i % (40 if quick else 8) == 0]
        ex = cli_adds(rep, b, ch, sample, [1, -1, 59, -366] if quick else [1, -1, 28, 59, -61, 365, -366, 1461, -36525])
        cc.validate_and_report(rep, "CalendarTrace", "CalendarTrace.cfg", ex,
                               lambda bad, e: "cli %s" % " ".join(bad.get("src", "?").split()[:3]), "dadd_execution")
        rep.cov["rule"] = ("A: one case = (day, notation, signed day/week count): k in +-{1..8,13..15,27..32,58..62,89..92,181..184,364..367,"
                           "730,731,1096,1461} and weeks for |k|<=62 on EVERY day 1601..4095, large counts (to 2*146097) on every "
                           "97th/11th day, seeded random counts and the laws (a then b = a+b, n then -n) through the library; "
                           "plus every DateArith state replayed through the dadd tool; B: dadd runs validated by CalendarTrace")
        rep.assumptions += ["results outside 1601..4095 are not judged", "day counts beyond the 606-day tail finding are not fed as ldn input"]
        return rep.finish()
    finally:
        b.close()


def replay(path):
    print(open(path).read())
    return 0
