"""C12 -- time-zone conversion follows the zone file for every zone and instant.
Spec: ZoneSem.tla (offset in force = last transition at or before t; ranges on the merged table) and ZoneImpl.tla
(the lookup mechanism: bisection + range cache, checked by TLC to refine ZoneSem for every small table and every query
history, with Progress of the bisection).
A: every ZoneImpl initial state (table) and history is written as a synthetic TZif file (v1/v2/v3) and replayed.
B: every installed zone file (parsed by an independent TZif reader) is queried at every transition -1/0/+1 s, both
table ends and far beyond, in ascending / descending / seeded order on one handle, plus zone-local -> UTC and
zone-range queries; all events are validated by ZoneTrace.tla."""
import os, json
from vlib import core, tzif
from checks import zonecommon as zc

PID = "C12"


def synthetic_cases(rep, tier):
    """TLC on ZoneImpl: Refines + Progress for all small tables and histories; emits (table, history) cases"""
    cfg = "ZoneImpl.cfg" if tier == "quick" else "ZoneImplThorough.cfg"
    r = core.tlc_must_pass("ZoneImpl", cfg, timeout=2400, heap="16g")
    rep.add_tlc("ZoneImpl (%s: bisection + cache refine ZoneSem, Progress)" % cfg, r)
    cases = []
    for line in r.prints:
        j = core.parse_print(line)
        if j and "tr" in j:
            cases.append(j)
    r.prints = []
    return cases


def dzone_events(rep, b, zones, rng, zmap, per_zone):
    import datetime, re
    from concurrent.futures import ThreadPoolExecutor
    dz = b.tool("dzone")
    E0 = datetime.datetime(1970, 1, 1)
    pat = re.compile(r"^(never|(\d{4}-\d\d-\d\dT\d\d:\d\d:\d\d)([+-])(\d\d):(\d\d)) (->|<-) (never|(\d{4}-\d\d-\d\dT\d\d:\d\d:\d\d)([+-])(\d\d):(\d\d))\t")

    def side(m, k):
        if m.group(k) == "never":
            return None
        loc = (datetime.datetime.strptime(m.group(k + 1), "%Y-%m-%dT%H:%M:%S") - E0)
        off = (int(m.group(k + 3)) * 3600 + int(m.group(k + 4)) * 60) * (1 if m.group(k + 2) == "+" else -1)
        return loc.days * 86400 + loc.seconds - off, off
    jobs = []
    pick = [zp for zp in zones if len(tzif.TZif(zp[1]).trs) >= 3]
    rng.shuffle(pick)
    for name, path in pick[: 40 if per_zone < 20 else 400]:
        z = tzif.TZif(path)
        mt, mty = z.compacted()
        # instants: between merged transitions, exactly at them, far beyond.  A job is kept only when the transition the MERGED TABLE says
        # must be reported has offsets printable as +HH:MM on both sides (decided from the table, not from the tool's answer)
        import bisect
        cand = []
        for i in range(1, len(mt)):
            if -2_000_000_000 < mt[i] < 4_000_000_000:
                cand += [mt[i] - 86400 * 3, mt[i], mt[i] + 1, mt[i] - 1]
        cand = [t for t in cand if t > mt[0] + 86400]
        rng.shuffle(cand)

        def printable(j):
            return 0 <= j < len(mt) and z.ofs[mty[j]] % 900 == 0 and (j == 0 or z.ofs[mty[j - 1]] % 900 == 0)
        for t in cand[:per_zone] + [mt[-1] + 86400 * 4000]:
            jp = bisect.bisect_right(mt, t) - 1          # previous (last at or before t)
            jn = jp + 1
            if jn >= len(mt) or printable(jn):
                jobs.append((name, z, t, "next"))
            if printable(jp):
                jobs.append((name, z, t, "prev"))

    def one(job):
        name, z, t, d = job
        iso = (E0 + datetime.timedelta(seconds=t)).strftime("%Y-%m-%dT%H:%M:%S")
        p = core.run([dz, "--" + d, name, iso], timeout=20)
        return job, p.stdout, p.returncode
    out = []
    with ThreadPoolExecutor(max_workers=core.NCPU) as ex:
        for (name, z, t, d), txt, rc in ex.map(one, jobs):
            m = pat.match(txt)
            label = "dzone " + name
            zmap[label] = z
            if not m:
                rep.disagree("dzone --%s: unreadable output" % d, {"zone": name, "t": t, "out": txt[:120], "rc": rc})
                continue
            a, bb = side(m, 1), side(m, 7)
            # both sides denote the same instant, left in the offset before it, right in the offset from it on; before a zone's first
            # transition the tool knows no offset and prints never for that side
            vals = set(z.trs) | {t}
            known = bb if bb is not None else a
            tr = known[0] if known is not None else None
            if tr is not None:
                vals |= {tr, tr - 1}
            order = sorted(vals)
            rank = {v: i + 1 for i, v in enumerate(order)}
            ev = {"e": "Trans", "dir": d, "t": rank[t], "tr": rank[tr] if tr is not None else (-2 if d == "next" else -1),
                  "trm1": rank[tr - 1] if tr is not None else 1, "offb": a[1] if a is not None else 0, "offa": bb[1] if bb is not None else 0,
                  "nob": a is None, "same": (a is None or bb is None or a[0] == bb[0]), "T": str(t), "out": txt.strip()[:100]}
            if not ev["same"]:
                rep.disagree("dzone --%s: the two sides denote different instants" % d, {"zone": name, "t": t, "out": txt[:120]})
                continue
            out.append([{"e": "Reset", "zone": label, "trs": [rank[x] for x in z.trs], "typ": list(z.typ), "ofs": list(z.ofs)}, ev])
    # several zones in one process (names that are prefixes of each other, both orders): every row must follow its own zone file
    rowpat = re.compile(r"^(\d{4}-\d\d-\d\dT\d\d:\d\d:\d\d)([+-])(\d\d):(\d\d)\t(\S+)$")
    PAIRS = [("EST", "EST5EDT"), ("NZ", "NZ-CHAT"), ("GB", "GB-Eire"), ("MST", "MST7MDT"), ("Etc/GMT+1", "Etc/GMT+10"), ("Etc/GMT-1", "Etc/GMT-14"),
             ("Asia/Kolkata", "Asia/Kathmandu")]
    nmulti = 0
    for pr in PAIRS:
        if not all(os.path.exists("/usr/share/zoneinfo/" + zname) for zname in pr):
            continue
        for zs in (list(pr), list(reversed(pr)), [pr[0], pr[1], pr[0]]):
            for t in (1590969600, 1577836800, 946684800):
                iso = (E0 + datetime.timedelta(seconds=t)).strftime("%Y-%m-%dT%H:%M:%S")
                p = core.run([dz] + zs + [iso], timeout=20)
                nmulti += 1
                rows = p.stdout.splitlines()
                if len(rows) != len(zs):
                    rep.disagree("dzone with several zones: %d rows for %d zones" % (len(rows), len(zs)), {"zones": zs, "out": p.stdout[:200]})
                    continue
                for zname, row in zip(zs, rows):
                    m = rowpat.match(row)
                    z = tzif.TZif("/usr/share/zoneinfo/" + zname)
                    label = "dzone multi " + zname
                    zmap[label] = z
                    off = ((int(m.group(3)) * 3600 + int(m.group(4)) * 60) * (1 if m.group(2) == "+" else -1)) if m else 10 ** 6
                    order = sorted(set(z.trs) | {t})
                    rank = {v: i + 1 for i, v in enumerate(order)}
                    out.append([{"e": "Reset", "zone": label, "trs": [rank[x] for x in z.trs], "typ": list(z.typ), "ofs": list(z.ofs)},
                                {"e": "Local", "t": rank[t], "off": off, "T": str(t), "row": row[:80], "zones": " ".join(zs)}])
    rep.notes["dzone_runs"] = len(jobs) + nmulti
    return out


def main(tier):
    rep = core.Report(PID, tier, "model_checking")
    b = core.Build("plain")
    try:
        quick = tier == "quick"
        drv = b.driver("drv_zone", link_lib=True)
        rng = core.rng("c12")
        runner = zc.ZoneRunner(drv, rep)
        execs = []
        zmap = {}
        # ---- A: synthetic files from the ZoneImpl model
        cases = synthetic_cases(rep, tier)
        sdir = core.scratch("tzsyn")
        nsyn = 0
        seen_tables = {}
        for c in cases:
            key = (tuple(c["tr"]), tuple(c["ty"]))
            seen_tables.setdefault(key, []).append(c["qs"])
        for ti, ((trs, tys), hists) in enumerate(sorted(seen_tables.items())):
            # scale the model's small instants to seconds around 2001 (and once across the epoch)
            for variant, (base, step, ver) in enumerate([(1_000_000_000, 3600, 2), (-7200, 3600, 1), (4_102_444_800, 86400, 3)]):
                if quick and variant and ti % 5:
                    continue
                rt = [base + step * t for t in trs]
                ofs = [3600 * k for k in range(0, 4)]
                path = os.path.join(sdir, "syn_%d_%d" % (ti, variant))
                tzif.write_tzif(path, rt, list(tys), ofs, version=ver)
                z = tzif.TZif(path)
                label = "synthetic#%d.%d v%d trs=%s" % (ti, variant, ver, list(trs))
                zmap[label] = z
                for qs in hists:
                    h = [("L", base + step * q) for q in qs]
                    ev = runner.run(path, z, h, label)
                    if ev:
                        execs.append(ev)
                        nsyn += 1
        core.log("synthetic: %d tables, %d histories executed" % (len(seen_tables), nsyn))
        # > 255 transitions, synthetic: 300 alternating transitions, queried everywhere
        path = os.path.join(sdir, "syn_300")
        rt = [1_000_000_000 + 86400 * i for i in range(300)]
        tzif.write_tzif(path, rt, [i % 3 for i in range(300)], [0, 3600, 7200], version=2)
        z = tzif.TZif(path)
        zmap["synthetic-300"] = z
        for h in zc.histories(z, rng):
            ev = runner.run(path, z, h, "synthetic-300")
            if ev:
                execs.append(ev)
        # ---- B: every installed zone file
        zones = tzif.all_zone_files()
        if quick:
            # all zones with > 200 transitions or unusual shape, plus a seeded third of the rest
            pick = []
            for name, p in zones:
                n = len(tzif.TZif(p).trs)
                if n > 200 or n < 8 or rng.random() < 0.3:
                    pick.append((name, p))
            zones = pick
        for name, p in zones:
            z = tzif.TZif(p)
            zmap[name] = z
            for h in zc.histories(z, rng, cap=240 if quick else None):
                ev = runner.run(p, z, h, name)
                if ev:
                    execs.append(ev)
        runner.flush_hangs()
        runner.close()
        # ---- dzone --next / --prev: the adjacent transitions of the merged table, with the offsets on both sides (tool level)
        execs += dzone_events(rep, b, zones, rng, zmap, 12 if quick else 60)
        core.log("zones: %d files, %d queries, %d executions, hangs=%d" % (len(zones), runner.nq, len(execs), runner.drv.hangs))
        rep.notes["zone_files"] = len(zones)
        rep.notes["queries"] = runner.nq
        rep.notes["hangs"] = runner.drv.hangs
        # ---- validate everything by TLC
        nval, rejected, st = core.validate_batches("ZoneTrace", "ZoneTrace.cfg", execs, max_reject=60, timeout=1800)
        rep.cov["states"] += st
        rep.cov["transitions"] += st
        rep.count(traces=nval, evaluations=runner.nq, distinct=runner.nq)
        for ei, pos, ex in rejected:
            bad = ex[pos] if pos < len(ex) else {}
            rep.disagree(zc.reject_key(bad, ex, zmap), {"zone": ex[0].get("zone"), "rejected_event": bad, "index": pos,
                                                        "history_before": [(e.get("e"), e.get("T") or e.get("L")) for e in ex[max(1, pos - 3):pos]]})
        if execs:
            ex = execs[len(execs) // 2]
            rep.sample({"zone": ex[0].get("zone"), "events": ex[1:4]})
        rep.cov["rule"] = ("one case = one query (zif_local_time / zif_utc_time / zif_find_zrng) in a history on one handle; histories: every "
                           "transition instant -1/0/+1 s of every table (quick: capped at 240 instants per zone, a third of the zones + all "
                           "extreme ones), both ends, +10y, year 4093, ascending/descending/seeded; synthetic files for every ZoneImpl table")
        rep.assumptions += ["the installed /usr/share/zoneinfo is the meaning of 'the zone file'; independent TZif reader cross-checked "
                            "against CPython zoneinfo", "before the first listed transition nothing is promised and nothing is judged",
                            "instants are rank-compressed per execution (lookup depends on order only)"]
        return rep.finish()
    finally:
        b.close()


def replay(path):
    print(open(path).read())
    return 0
