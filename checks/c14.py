"""C14 -- leap-second aware results follow the leap-second table.
Spec: Leaps.tla over the frozen table LeapTab.tla (steps by one exactly at listed instants, monotone, last value kept,
AddReal laws) and Bisect.tla (the table bisection refines 'last entry strictly below the key', terminates).
A: every Bisect state (table, key) replayed on leaps_before_{si32,ui32,si64,ui64}.
B: TAI/GPS conversions at every entry +-2 s, yearly to 4095 and seeded; ddiff -f %rS on ordered pairs around every
entry and far apart (both orders); dadd +N rs walks across every inserted second -- validated by LeapsTrace.tla.
The table itself: LeapCompile.tla models lib/ltrcc.c (six passes, statics) against the columns a list must compile to;
every list TLC emits, the shipped list and the arrays linked into libdut.a go through LeapCompileTrace.tla."""
import re
from vlib import core
from vlib.zonedrv import LineDriver
from checks import calcommon as cc

PID = "C14"


def leap_days():
    txt = open(core.SPEC + "/LeapTab.tla").read()
    return [(int(a), int(b)) for a, b in re.findall(r"<<(\d+), (\d+)>>", txt)]


def ds(t):
    return [t // 86400, t % 86400]


def iso(t):
    import datetime
    return (datetime.datetime(1970, 1, 1) + datetime.timedelta(seconds=t)).strftime("%Y-%m-%dT%H:%M:%S")


def parse_dt(s):
    """'YYYY-MM-DDTHH:MM:SS' -> [unix day, sod] ; SS may be 60"""
    import datetime
    m = re.match(r"(\d{4})-(\d\d)-(\d\d)T(\d\d):(\d\d):(\d\d)$", s)
    if not m:
        return [-1, -1]
    y, mo, d, H, M, S = map(int, m.groups())
    day = (datetime.date(y, mo, d) - datetime.date(1970, 1, 1)).days
    return [day, H * 3600 + M * 60 + S]


def main(tier):
    rep = core.Report(PID, tier, "model_checking")
    b = core.Build("plain")
    try:
        quick = tier == "quick"
        rng = core.rng("c14")
        r = core.tlc_must_pass("Leaps", "Leaps.cfg", workers=4, keep_prints=False)
        rep.add_tlc("Leaps (table laws: StepsByOne, Monotone, StepExact, KeepsLast, AddRealLaws)", r)
        r = core.tlc_must_pass("Bisect", "Bisect.cfg" if quick else "BisectThorough.cfg")
        rep.add_tlc("Bisect (find_before refines 'last entry below key', Progress)", r)
        cases = [core.parse_print(x) for x in r.prints]
        cases = [c for c in cases if c and "key" in c]
        o = core.tlc("Bisect", "BisectOld.cfg", workers=4, keep_prints=False)
        if "Refines" not in o.violated:
            raise core.MachineryError("negative control failed: the pinned bisection is not refuted")
        rep.notes["negative_control"] = "BisectOld.cfg (pinned loop) violates Refines as required"
        # the frozen table must still be the table the code is built from
        import subprocess
        cur = subprocess.run(["python3", core.VERIF + "/tools/gen_leaps.py", core.REPO + "/lib/leap-seconds.list", "/dev/stdout"],
                             capture_output=True, text=True).stdout
        if "LEAPS ==" in cur and cur.split("LEAPS ==")[1].split(">>\n=")[0] != open(core.SPEC + "/LeapTab.tla").read().split("LEAPS ==")[1].split(">>\n=")[0]:
            rep.disagree("leap-seconds.list differs from the frozen table", {"note": "lib/leap-seconds.list was changed"})
        drv = LineDriver(b.driver("drv_zone", link_lib=True), timeout=2.0)
        # ---- A: bisection cases on the real functions
        n = 0
        for c in cases:
            v, key, idx = c["v"], c["key"], c["idx"]
            for kind, f in (("si32", lambda x: x * 1000 - 4000), ("ui32", lambda x: x * 7 + 1), ("si64", lambda x: x * 10 ** 10 - 3 * 10 ** 10),
                            ("ui64", lambda x: x * 10 ** 12)):
                if quick and kind in ("ui64",) and n % 3:
                    pass
                vv = [f(x) for x in v]
                if kind == "si32":
                    vv[0], vv[-1] = -2 ** 31, 2 ** 31 - 1
                got = drv.cmd("B %s %d %s %d" % (kind, len(vv), " ".join(map(str, vv)), f(key)))
                n += 1
                if got == "hang":
                    rep.disagree("leaps_before_%s does not terminate" % kind, {"v": vv, "key": f(key)})
                elif not isinstance(got, dict) or got.get("idx") != idx:
                    # key equal to the lower sentinel has no entry below: index 0 is what the spec says
                    rep.disagree("leaps_before_%s wrong index" % kind, {"v": vv, "key": f(key), "got": got, "want": idx})
        rep.count(evaluations=n, distinct=n, traces=len(cases))
        rep.sample({"bisect_case": cases[len(cases) // 2] if cases else None})
        core.log("bisect cases replayed: %d" % n)
        # ---- B: TAI / GPS offsets
        ld = leap_days()
        ev = []
        ts = set()
        for d, off in ld:
            for k in (-2, -1, 0, 1, 2):
                ts.add(d * 86400 + k)
        for y in range(1972, 4095, 1 if not quick else 7):
            import datetime
            ts.add((datetime.date(y, 1, 1) - datetime.date(1970, 1, 1)).days * 86400)
        for _ in range(300 if quick else 200000):
            ts.add(rng.randrange(730 * 86400, 776000 * 86400))
        ts.update((2 ** 31 - 2, 2 ** 31 - 1, 2 ** 31, 2 ** 31 + 1, 2 ** 32, 2 ** 32 + 1))
        for zone, evn, lo in (("TAI", "Tai", 730 * 86400), ("GPS", "Gps", 3657 * 86400)):
            drv.cmd("O " + zone)
            # one process, three orders: the answer must not depend on what was looked up before (a cache of the last leap period would)
            asc = [t for t in sorted(ts) if t >= lo]
            shuf = list(asc)
            rng.shuffle(shuf)
            for t in asc + asc[::-1] + shuf:
                if t < lo:
                    continue
                r_ = drv.cmd("L %d" % t)
                if r_ in ("hang", "crash"):
                    rep.disagree("%s offset lookup %s" % (zone, r_), {"t": t})
                    drv.cmd("O " + zone)
                    continue
                ev.append({"e": evn, "t": ds(t), "off": zc_clamp(int(r_["r"]) - t), "T": iso(t)})
            # the other direction (--from-zone TAI|GPS): clock readings from 3 s before to 45 s after every inserted second and seeded ones
            xs = set()
            for d, off in ld[1:]:
                for k in range(-3, 46):
                    xs.add(d * 86400 + k + (0 if zone == "TAI" else -19))
            for _ in range(200 if quick else 20000):
                xs.add(rng.randrange(lo + 100, 776000 * 86400))
            xl = sorted(x for x in xs if x >= lo + 100)
            xshuf = list(xl)
            rng.shuffle(xshuf)
            for x in xl + xshuf[: len(xshuf) // 2]:
                r_ = drv.cmd("U %d" % x)
                if r_ in ("hang", "crash"):
                    rep.disagree("%s reading to UTC %s" % (zone, r_), {"x": x})
                    drv.cmd("O " + zone)
                    continue
                ev.append({"e": evn + "Inv", "x": ds(x), "u": ds(int(r_["u"])), "X": iso(x)})
        drv.close()
        # ---- B: real-second differences and additions through the tools
        ddiff, dadd = b.tool("ddiff"), b.tool("dadd")
        pts = []
        for d, off in ld[1:]:
            pts += [d * 86400 - 2, d * 86400 - 1, d * 86400, d * 86400 + 1]
        pts += [365 * 86400, 800 * 86400, 20000 * 86400, 40000 * 86400 + 12345]
        pairs = set()
        for a in pts:
            for _ in range(3 if quick else 40):
                bb = rng.choice(pts)
                if abs(bb - a) < 2 ** 31 - 100:
                    pairs.add((a, bb))
                    pairs.add((bb, a))
        # operands on both sides of 2^31 seconds (the table's keys are 32 bits wide; later instants keep the last correction)
        for a in (1341100798, 2 ** 31 - 2, 2 ** 31 - 1, 2 ** 31, 2 ** 31 + 1):
            for bb in (2 ** 31 - 1, 2 ** 31, 2 ** 31 + 1, 40000 * 86400 + 12345):
                if a != bb:
                    pairs.add((a, bb))
                    pairs.add((bb, a))
        nrun = 0
        def ymcw(t):
            import datetime
            x = datetime.datetime(1970, 1, 1) + datetime.timedelta(seconds=t)
            return "%04d-%02d-%02d-%02dT%s" % (x.year, x.month, (x.day - 1) // 7 + 1, x.isoweekday(), x.strftime("%H:%M:%S"))
        for pi, (a, bb) in enumerate(sorted(pairs)):
            # the table is consulted per notation of the operands (ymd, n-th weekday, seconds since the epoch): all three must agree
            variants = [("", [iso(a), iso(bb)])]
            if pi % 3 == 1 or not quick or max(a, bb) >= 2 ** 31 - 1:
                variants.append((" -i %s", ["-i", "%s", str(a), str(bb)]))
            if pi % 3 == 2 or not quick:
                variants.append((" (ymcw)", ["-i", "%Y-%m-%c-%wT%T", ymcw(a), ymcw(bb)]))
            # the real-second count next to other specifiers of the same format (nanoseconds, literals, plain seconds or %T after it)
            if pi % 4 == 0 or not quick:
                for f_ in ("%rS.%N", "x%rSy%Nz", "%rS %S", "%rS|%T", "%S %rS"):
                    variants.append((" " + f_, [iso(a), iso(bb)]))
            for tag, args in variants:
                fmt = tag[1:] if tag.startswith(" %") or tag.startswith(" x") else "%rS"
                p = core.run([ddiff] + args + ["-f", fmt], timeout=20)
                nrun += 1
                try:
                    o_ = p.stdout.strip()
                    if fmt != "%rS":
                        # a negative duration carries one sign in front of the whole output; the real-second field is the first number
                        # (the second one for "%S %rS")
                        nums = re.findall(r"\d+", o_)
                        n_ = nums[1 if fmt.startswith("%S") else 0]
                        o_ = ("-" if o_.startswith("-") or ("-" + n_) in o_ else "") + n_       # (the sign sits in front of the output or of the number)
                    rv = int(o_)
                except (ValueError, IndexError):
                    rv = 2 ** 31 - 1
                ev.append({"e": "RDiff", "a": ds(a), "b": ds(bb), "dd": bb // 86400 - a // 86400, "ds": bb % 86400 - a % 86400, "r": rv,
                           "A": args[-2], "B": args[-1], "nota": tag})
        # beyond 2^31 seconds: known finding class, one probe
        p = core.run([ddiff, "1971-01-01T00:00:00", "2100-01-01T00:00:00", "-f", "%rS"], timeout=20)
        if p.stdout.strip() != "4070908827":
            rep.disagree("rdiff-beyond-2^31-seconds", {"cmd": "ddiff 1971-01-01T00:00:00 2100-01-01T00:00:00 -f %rS", "got": p.stdout.strip(), "want": "4070908827"})
        # across every inserted second, and across the first table entry (1972-01-01, where TAI-UTC starts at 10 and nothing is inserted)
        for d, off in ld:
            for start in (d * 86400 - 2, d * 86400 + 1):
                for nn in ([-3, -2, -1, 1, 2, 3] if not quick else [-3, 2, 3]):
                    p = core.run([dadd, iso(start), "%+drs" % nn], timeout=20)
                    nrun += 1
                    ev.append({"e": "RAdd", "t": ds(start), "n": nn, "res": parse_dt(p.stdout.strip()), "T": iso(start), "out": p.stdout.strip()})
        rep.notes["tool_runs"] = nrun
        # every event is its own execution (no state between them): batch them in chunks so one rejection costs little
        execs = [[e] for e in ev]
        nval, rejected, st = core.validate_batches("LeapsTrace", "LeapsTrace.cfg", execs, max_reject=40)
        rep.cov["states"] += st
        rep.cov["transitions"] += st
        rep.count(traces=nval, evaluations=len(ev), distinct=len(ev))
        for ei, pos, ex in rejected:
            bad = ex[0]
            key = "leaps %s" % bad["e"]
            if bad["e"] in ("Tai", "Gps"):
                key += " after-2038" if bad["t"][0] * 86400 + bad["t"][1] > 2 ** 31 - 1 else " table-range"
            elif bad["e"] == "RDiff":
                key += (" backwards" if (bad["dd"], bad["ds"]) < (0, 0) else " forwards") + bad.get("nota", "")
            rep.disagree(key, {"rejected_event": bad})
        rep.sample({"events": ev[:2] + ev[-2:]})
        compiler_section(rep, b, quick)
        core.log("leap events: %d validated, %d rejected" % (nval, len(rejected)))
        rep.cov["rule"] = ("A: one case = (table, key) of the Bisect model x 4 integer widths; B: one event = TAI/GPS offset at an instant "
                           "(every entry +-2 s, yearly 1972..4094, 2^31 and 2^32 boundaries, seeded), a real-second difference of an ordered "
                           "pair (both orders; |difference| < 2^31 s) or a real-second addition across an inserted second")
        rep.assumptions += ["operands that are themselves 23:59:60 are not used for differences", "before 1972-01-01 (TAI) / 1980-01-06 (GPS) nothing is judged",
                            "LeapTab.tla is a frozen copy of lib/leap-seconds.list (a change of the list is reported)"]
        return rep.finish()
    finally:
        b.close()


# ---- the leap-list compiler (lib/ltrcc.c): LeapCompile.tla, lists emitted by TLC replayed into the real ltrcc
def _parse_def(txt):
    cols = {}
    for name, body in re.findall(r"const u?int32_t (leaps_\w+)\[\] = \{(.*?)\};", txt, re.S):
        body = re.sub(r"/\*.*?\*/", "", body)
        cols[name] = [x.strip().rstrip("U") for x in body.split(",") if x.strip()]
    return cols


def _num(tok):
    return {"INT32_MIN": -2 ** 31, "INT32_MAX": 2 ** 31 - 1, "UINT32_MAX": 2 ** 32 - 1}.get(tok, None) if not tok[:1].isdigit() and tok[:1] != "-" else int(tok, 0)


def _columns(raw, dec):
    """raw .def tokens -> the columns of LeapCompileTrace; packed words are decoded by the library's own types (dec)"""
    def word(name):
        return [_num(t) for t in raw.get(name, [])]
    out = {"corr": [["v", x] for x in word("leaps_corr")],
           "d": [["hi", 0] if x == 2 ** 32 - 1 else ["v", x] for x in word("leaps_d")],
           "s": [["lo", 0] if x == -2 ** 31 else ["hi", 0] if x == 2 ** 31 - 1 else ["v", x] for x in word("leaps_s")]}
    for name, cmd in (("ymd", "Y"), ("ymcw", "C")):
        col, words = [], []
        for x in word("leaps_" + name):
            col.append(["z", 0] if x == 0 else ["hi", 0] if x == 2 ** 32 - 1 else ["v"] + dec("%s %x" % (cmd, x)))
            # consumers compare whole words: the key must be, bit for bit, the word the library forms when it reads that day
            f = col[-1][1:]
            canon = dec("P%s %s" % (cmd, "%04d-%02d-%02d" % tuple(f) if name == "ymd" else "%04d-%02d-%02d-%02d" % tuple(f))) if col[-1][0] == "v" and len(f) == (3 if name == "ymd" else 4) else "-"
            words.append(["%x" % x, canon if isinstance(canon, str) else "?"])
        out[name] = col
        out[name + "w"] = words
    out["hms"] = [["hi", 0] if x == 2 ** 32 - 1 else ["t"] + dec("H %x" % x) for x in word("leaps_hms")]
    return out


def compiler_section(rep, b, quick):
    import os, tempfile, shutil
    r = core.tlc_must_pass("LeapCompile", "LeapCompile.cfg" if quick else "LeapCompileThorough.cfg", workers=8, keep_prints=False, timeout=3000)
    rep.add_tlc("LeapCompile (the six passes of ltrcc with their statics emit the columns (S) demands; WellFormed; StaticsReset)", r)
    o = core.tlc("LeapCompile", "LeapCompileNeg.cfg", workers=4, keep_prints=False)
    if "Refines" not in o.violated:
        raise core.MachineryError("negative control failed: the label of a deleted second is not refuted")
    rep.notes["negative_control_compiler"] = "LeapCompileNeg.cfg (rows that lower the difference) violates Refines as required: ltrcc labels a deleted second 23:59:59"
    r = core.tlc_must_pass("LeapCompile", "LeapCompileEmit.cfg" if quick else "LeapCompileEmitThorough.cfg", workers=4, timeout=3000)
    lists = [c["list"] for c in (core.parse_print(x) for x in r.prints) if c and "list" in c]
    if len(lists) < 100:
        raise core.MachineryError("LeapCompile emitted only %d lists" % len(lists))
    ltrcc = os.path.join(b.lib, "ltrcc")
    if not os.path.exists(ltrcc):
        raise core.MachineryError("the build has no lib/ltrcc")
    drv = LineDriver(b.driver("drv_leaptab", link_lib=True), timeout=5.0)

    def dec(cmd):
        got = drv.cmd(cmd)
        return got if isinstance(got, (list, str)) else [-9]
    d = tempfile.mkdtemp(prefix="verif-ltr.", dir="/var/tmp")
    ev = []
    try:
        def compile_list(lines, tag):
            path = os.path.join(d, "l.list")
            with open(path, "w") as f:
                for x in lines:
                    f.write("# a comment line\t12 34\n" if x["k"] == "c" else "\n" if x["k"] == "b" else "%d\t%d\t# row\n" % (x["nd"] * 86400, x["off"]))
            p = core.run([ltrcc, "-C", path], timeout=20)
            return {"e": "Table", "src": tag, "rc": p.returncode, "lines": lines, "cols": _columns(_parse_def(p.stdout), dec)}
        for i, ls in enumerate(lists):
            ev.append([compile_list(ls, "ltrcc -C on TLC list %d" % i)])
        # the shipped list, and the arrays linked into the library
        shipped = []
        for l in open(os.path.join(b.lib, "leap-seconds.list")):
            if l.startswith("#"):
                shipped.append({"k": "c", "nd": 0, "off": 0})
            elif not l.strip():
                shipped.append({"k": "b", "nd": 0, "off": 0})
            else:
                a, off = l.split()[:2]
                if int(a) % 86400:
                    rep.disagree("leap-seconds.list row not at midnight", {"row": l.strip()})
                shipped.append({"k": "d", "nd": int(a) // 86400, "off": int(off)})
        p = core.run([ltrcc, "-C", os.path.join(b.lib, "leap-seconds.list")], timeout=20)
        comp = _columns(_parse_def(p.stdout), dec)
        ev.append([{"e": "Table", "src": "ltrcc -C lib/leap-seconds.list", "rc": p.returncode, "lines": shipped, "cols": comp}])
        t = drv.cmd("T")
        linked = {"corr": [], "ymd": [], "ymcw": [], "d": [], "s": [], "hms": []}
        if isinstance(t, dict):
            raw = {"leaps_corr": [str(x["corr"]) for x in t["rows"]], "leaps_ymd": ["0x" + x["ymdu"] for x in t["rows"]],
                   "leaps_ymcw": ["0x" + x["ymcwu"] for x in t["rows"]], "leaps_d": ["0x" + x["d"] for x in t["rows"]],
                   "leaps_s": [x["s"] for x in t["rows"]], "leaps_hms": ["0x%x" % (2 ** 32 - 1) if x["hms"][0] < 0 else "0x%x" % (x["hms"][0] << 16 | x["hms"][1] << 8 | x["hms"][2]) for x in t["rows"]]}
            linked = _columns(raw, dec)
        ev.append([{"e": "Table", "src": "arrays linked into libdut.a", "rc": 0, "lines": shipped, "cols": linked}])
        ev.append([{"e": "Same", "src": "linked arrays = compiler output", "linked": linked, "compiled": comp}])
    finally:
        shutil.rmtree(d, ignore_errors=True)
        drv.close()
    nval, rejected, st = core.validate_batches("LeapCompileTrace", "LeapCompileTrace.cfg", ev, max_reject=20)
    rep.cov["states"] += st
    rep.cov["transitions"] += st
    rep.count(traces=nval, evaluations=len(ev), distinct=len(ev))
    for ei, pos, ex in rejected:
        bad = ex[0]
        rep.disagree("leap-list compiler: %s" % ("compiled columns" if bad["e"] == "Table" and bad["src"].startswith("ltrcc") else bad["src"]),
                     {"rejected_event": {k: bad[k] for k in bad if k != "lines"}, "data_rows": [x for x in bad.get("lines", []) if x["k"] == "d"][:6]})
    rep.notes["compiler_lists"] = len(lists)
    core.log("leap-list compiler: %d compilations validated, %d rejected" % (nval, len(rejected)))


def zc_clamp(x):
    return max(-2 ** 31 + 1, min(2 ** 31 - 1, x))


def replay(path):
    print(open(path).read())
    return 0
