"""ddiff scenarios shared by C05 and C06: point sets, batched ddiff runs, output parsing"""
import re, datetime
from concurrent.futures import ThreadPoolExecutor
from vlib import core, chain as chainmod, caldrv

D0 = datetime.date(1582, 10, 15)
UNITS = {"Y": "%Y", "m": "%m", "w": "%w", "d": "%d", "b": "%db", "H": "%H", "M": "%M", "S": "%S"}


def point(ch, l, sod=None):
    r = ch.row(l)
    return {"y": r[1], "m": r[2], "d": r[3], "ldn": r[0], "wd": r[4], "sod": sod or 0, "iy": r[6], "iw": r[7]}


def text(p, with_time):
    s = "%04d-%02d-%02d" % (p["y"], p["m"], p["d"])
    if with_time:
        s += "T%02d:%02d:%02d" % (p["sod"] // 3600, p["sod"] // 60 % 60, p["sod"] % 60)
    return s


def fmt_of(units, pad=""):
    return " ".join(("%" + pad + UNITS[u][1:]) if pad and u in "HMSd" and u != "b" else UNITS[u] for u in units)


def run_matrix(tool, pts, with_time, units, pad="", textfn=None, extra_args=(), argfn=None):
    """ddiff A -f FMT with all points on stdin, for every A: returns {(i, j): raw output line};
    textfn(p) writes the operands in another notation (extra_args: the -i format for it)"""
    fmt = fmt_of(units, pad)
    tf = textfn or (lambda p: text(p, with_time))
    inp = "".join(tf(p) + "\n" for p in pts)

    def one(i):
        p = core.run([tool] + list(extra_args) + [(argfn or tf)(pts[i]), "-f", fmt], inp=inp, timeout=60)
        return i, p.stdout.splitlines(), p.returncode
    res = {}
    bad = []
    with ThreadPoolExecutor(max_workers=core.NCPU) as ex:
        for i, lines, rc in ex.map(one, range(len(pts))):
            if len(lines) != len(pts):
                bad.append((i, len(lines), rc))
                continue
            for j, ln in enumerate(lines):
                res[(i, j)] = ln
    return res, bad


def parse(line, units):
    """'-1 2 5b' -> (comps dict, number of minus signs, leading minus) ; None if unparsable"""
    toks = line.split()
    if len(toks) != len(units):
        return None
    comps = {u: 0 for u in UNITS}
    minus = line.count("-")
    lead = line.lstrip().startswith("-")
    for u, t in zip(units, toks):
        t = t.rstrip("b")
        try:
            v = int(t)
        except ValueError:
            return None
        comps[u] = abs(v)
    return comps, minus, lead


def epoch_text(p):
    return "@%d" % ((p["ldn"] - 141427) * 86400 + p["sod"])


def diff_events(rep, tool, pts, with_time, units, max_span=None, argfn=None, tag=""):
    """DiffTrace events for all ordered pairs of pts under one format (ddiff A B and ddiff B A); earlier day-of-month <= 28 for month/year units;
    argfn writes the command-line operand in another notation than the stdin operands (mixed notation)"""
    res, bad = run_matrix(tool, pts, with_time, units, argfn=argfn)
    for i, n, rc in bad:
        rep.disagree("ddiff %s: wrong number of output lines" % "".join(units), {"A": text(pts[i], with_time), "lines": n, "rc": rc})
    out = []
    for i in range(len(pts)):
        for j in range(i + 1, len(pts)):
            if (i, j) not in res or (j, i) not in res:
                continue
            a, bb = pts[i], pts[j]
            earlier = a if (a["ldn"], a["sod"]) <= (bb["ldn"], bb["sod"]) else bb
            if ("m" in units or "Y" in units) and earlier["d"] > 28:
                continue
            if max_span is not None and abs(a["ldn"] - bb["ldn"]) > max_span:
                continue
            p1, p2 = parse(res[(i, j)], units), parse(res[(j, i)], units)
            dead = {u: -1 for u in UNITS}
            if any(p_ and (max(p_[0].values()) >= 2 ** 31 or p_[0]["H"] * 3600 + p_[0]["M"] * 60 + p_[0]["S"] >= 2 ** 31) for p_ in (p1, p2)):
                # the pairs are chosen so that no unit reaches 2^31 (TLC's integers end there): such a value is wrong on its face
                rep.disagree("ddiff %s%s: printed time units of 2^31 seconds or more for operands less than that apart" % ("".join(units), tag),
                             {"A": (argfn or (lambda p: text(p, with_time)))(a), "B": text(bb, with_time), "out": res[(i, j)], "rout": res[(j, i)]})
                continue
            out.append([{"e": "Diff", "cmd": "ddiff %s %s -f '%s'" % ((argfn or (lambda p: text(p, with_time)))(a), text(bb, with_time), fmt_of(units)),
                         "fmt": "".join(units) + tag, "cal": "ywd" if ("Y" in units and "w" in units and "m" not in units) else "greg", "a": a, "b": bb,
                         "comps": p1[0] if p1 else dead, "neg": bool(p1 and p1[2]), "out": res[(i, j)],
                         "rcomps": p2[0] if p2 else dead, "rneg": bool(p2 and p2[2]), "rout": res[(j, i)]}])
    return out, len(pts)
