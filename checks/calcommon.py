"""shared machinery of the checks that replay the TLC day chain into libdut (C02 C03 C04 C07 C08)"""
import json, os
from vlib import core, chain as chainmod, caldrv


def windows(ldns):
    """consecutive runs of a sorted list of day indices -> [(lo, hi)]"""
    runs, start, prev = [], None, None
    for l in ldns:
        if prev is not None and l == prev + 1:
            prev = l
            continue
        if start is not None:
            runs.append((start, prev))
        start = prev = l
    if start is not None:
        runs.append((start, prev))
    return runs


def run_plan(rep, b, ch, drv, plan):
    """plan: list of dicts {mode, ranges: [(lo,hi)] or 'all', step, args, exhaustive, prefix}"""
    for item in plan:
        ranges = item.get("ranges", "all")
        if ranges == "all":
            ranges = [(chainmod.LDN_1601, chainmod.LDN_LAST)]
        merged_all = {}
        if len(ranges) == 1:
            lo, hi = ranges[0]
            merged_all = caldrv.run_sharded(drv, ch.path, item["mode"], lo, hi, item.get("step", 1), item.get("args", ()))
        else:
            # many small windows: one driver process per window, run in parallel
            from concurrent.futures import ThreadPoolExecutor

            def one(rg):
                return caldrv.run_sharded(drv, ch.path, item["mode"], rg[0], rg[1], item.get("step", 1), item.get("args", ()),
                                          nshards=1)
            with ThreadPoolExecutor(max_workers=core.NCPU) as ex:
                for m in ex.map(one, ranges):
                    for k, v in m.items():
                        t = merged_all.get(k)
                        if t is None:
                            merged_all[k] = v
                        else:
                            t["n"] += v["n"]
                            if v["bad"]:
                                t["min"] = v["min"] if not t["bad"] else min(t["min"], v["min"])
                                t["max"] = max(t["max"], v["max"])
                                t["bad"] += v["bad"]
                                t["s"] = (t["s"] + v["s"])[:3]
        n = caldrv.absorb(rep, merged_all, ch, prefix=item.get("prefix", ""), exhaustive=item.get("exhaustive", True))
        core.log("driver %s %s: %d evaluations, %d classes" % (item["mode"], item.get("args", ()), n, len(merged_all)))


def tool_lines(tool, args, inp, timeout=120):
    p = core.run([tool] + list(args), inp=inp, timeout=timeout)
    return p.returncode, p.stdout.splitlines(), p.stderr


def fmt_row(kind, r):
    if kind == "ymd":
        return "%04d-%02d-%02d" % (r[1], r[2], r[3])
    if kind == "ymcw":
        return "%04d-%02d-%02d-%02d" % (r[1], r[2], r[10], r[4])
    if kind == "ywd":
        return "%04d-W%02d-%d" % (r[6], r[7], r[4])
    if kind == "yd":
        return "%04d-%03d" % (r[1], r[5])
    if kind == "bizda":
        return "%04d-%02d-%02db" % (r[1], r[2], r[11])
    if kind == "ldn":
        return "%d" % r[0]
    if kind == "mdn":
        return "%d" % (r[0] + 578102)
    if kind == "jdn":
        return "%.1f" % (r[0] + 2299160.5)
    raise ValueError(kind)


INFMT = {"ymd": "%F", "ymcw": "%Y-%m-%c-%w", "ywd": "%G-W%V-%u", "yd": "%Y-%j", "bizda": "%Y-%m-%db", "ldn": "ldn", "mdn": "mdn",
         "jdn": "jdn"}
# what the tools print by default for a value of each notation
OUTKEY = {"ymd": "F", "ymcw": "ymcw", "ywd": "ywd", "yd": "yd", "ldn": "ldn", "mdn": "mdn", "jdn": "jdn"}


def validate_and_report(rep, module, cfg, execs, keyfn, label, group=None, per_group_reject=6, **kw):
    """validate executions by TLC; with `group` (execution -> class name) every class is validated on its own and
    stops after per_group_reject rejections, so that one failing class neither hides nor starves the others"""
    if not execs:
        return
    groups = {}
    if group is None:
        groups[""] = execs
    else:
        for ex in execs:
            groups.setdefault(group(ex), []).append(ex)
    tot_val = tot_rej = 0
    from concurrent.futures import ThreadPoolExecutor
    chunk = kw.pop("chunk", 3000)
    kw.setdefault("timeout", 3000)
    for g, exs in sorted(groups.items()):
        lim = 50 if group is None else per_group_reject
        # large classes are validated in chunks of `chunk` executions, several JVMs side by side (a trace spec runs on one worker)
        parts = [exs[i:i + chunk] for i in range(0, len(exs), chunk)]
        with ThreadPoolExecutor(max_workers=min(6, len(parts))) as pool:
            results = list(pool.map(lambda part: core.validate_batches(module, cfg, part, max_reject=lim, **kw), parts))
        nrej = 0
        for part, (nval, rejected, st) in zip(parts, results):
            rep.cov["states"] += st
            rep.cov["transitions"] += st
            rep.count(traces=nval, evaluations=len(part), distinct=len(part))
            tot_val += nval
            for ei, pos, ex in rejected:
                if nrej >= lim:
                    break
                nrej += 1
                tot_rej += 1
                bad = ex[pos] if pos < len(ex) else {}
                rep.disagree(keyfn(bad, ex), {"execution_head": ex[:2], "rejected_event": bad, "index": pos})
    rep.sample({label: execs[len(execs) // 2][:3]})
    core.log("%s: %d executions validated, %d rejected (%d classes)" % (label, tot_val, tot_rej, len(groups)))


def datearith_behaviours(rep, cfg="DateArith.cfg", timeout=1500):
    """TLC on DateArith: every reachable state = one behaviour (start, ops, expected print)"""
    r = core.tlc_must_pass("DateArith", cfg, timeout=timeout, heap="12g")
    rep.add_tlc("DateArith (%s: lazy clamp, Compose/DayExact/KeepDay/Valid)" % cfg, r)
    beh = []
    for line in r.prints:
        j = core.parse_print(line)
        if j and "ops" in j:
            beh.append(j)
    r.prints = []
    # negative control: the eager-clamp design must violate Compose (non-vacuity of the invariant)
    e = core.tlc("DateArith", "DateArithEager.cfg", workers=4, timeout=300, keep_prints=False)
    if "Compose" not in e.violated:
        raise core.MachineryError("negative control failed: eager clamp does not violate Compose")
    rep.notes["negative_control"] = "DateArithEager.cfg (clamp after every step) violates Compose as required"
    return beh


def replay_datearith(rep, b, beh, want_units, label):
    """direction A through the real tool: one dadd process per distinct op sequence, all start dates on stdin"""
    from concurrent.futures import ThreadPoolExecutor
    groups = {}
    for j in beh:
        ops = tuple((u, k) for u, k in j["ops"])
        if not ops or not all(u in want_units for u, _ in ops):
            continue
        groups.setdefault(ops, []).append(j)
    tool = b.tool("dadd")

    import datetime

    def render(view, e):
        d = datetime.date(*e)
        if view == "ywd":
            return "%04d-W%02d-%d" % d.isocalendar()
        if view == "yd":
            return "%04d-%03d" % (d.year, d.timetuple().tm_yday)
        if view == "ymcw":
            return "%04d-%02d-%02d-%02d" % (d.year, d.month, (d.day - 1) // 7 + 1, d.isoweekday())
        return "%04d-%02d-%02d" % tuple(e)

    def one(item):
        (ops, view), js = item
        args = ["%+d%s" % (k, u) for u, k in ops] + (["-f", view] if view != "ymd" else [])
        inp = "".join("%04d-%02d-%02d\n" % tuple(j["s"]) for j in js)
        p = core.run([tool] + args, inp=inp, timeout=60)
        return (ops, view), js, p.returncode, p.stdout.splitlines()

    n = 0
    # the sum is printed as it is held (ymd) and converted to the other calendars on output (-f ywd / yd / ymcw): the clamp must have
    # happened before any of them
    items = [((ops, view), js) for ops, js in sorted(groups.items()) for view in ("ymd", "ywd", "yd", "ymcw")]
    with ThreadPoolExecutor(max_workers=core.NCPU) as ex:
        for (ops, view), js, rc, lines in ex.map(one, items):
            opstr = " ".join("%+d%s" % (k, u) for u, k in ops) + ("" if view == "ymd" else " -f " + view)
            if len(lines) != len(js):
                rep.disagree("%s dadd %s: %d lines for %d inputs rc=%d" % (label, opstr, len(lines), len(js), rc), {"ops": opstr})
                continue
            for j, got in zip(js, lines):
                n += 1
                if j["e"][0] < 1601 or j["e"][0] > 4095:
                    continue
                want = render(view, j["e"])
                if got != want:
                    rep.disagree("%s dadd units=%s%s" % (label, "+".join(sorted(set(u for u, _ in ops))), "" if view == "ymd" else " printed as " + view),
                                 {"start": "%04d-%02d-%02d" % tuple(j["s"]), "ops": opstr, "got": got, "want": want})
    rep.count(evaluations=n, distinct=n, traces=n)
    rep.notes.setdefault("tool_runs", 0)
    rep.notes["tool_runs"] += len(items)
    if beh:
        rep.sample({"datearith_behaviour": beh[len(beh) // 2]})
    core.log("%s: %d behaviours replayed through dadd in %d runs" % (label, n, len(groups)))
