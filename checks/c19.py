"""C19 -- zone files and zone maps load safely and look up faithfully.
Spec: Loader.tla (every offset derived from header counts is inside the image or the open is refused; the unchecked
loader is refuted), TzMap.tla (record bisection refines Find, terminates) and TzMapTrace.tla.
Fault enumeration driven by the models: every Loader state (version, counts, file length) and every truncation /
count corruption / magic corruption of real and synthetic zone files is opened by the real zif_open with the image in
an exact-size heap block under ASan+bounds, followed by lookups; every TzMap layout is compiled by `tzmap cc` and every
present / absent key looked up (validated by TzMapTrace); compiled maps are truncated and corrupted likewise."""
import os, struct, json
from vlib import core, tzif
from vlib.zonedrv import LineDriver

PID = "C19"
LOOKUPS = [-2 ** 40, -2 ** 31, -1577943676, -1, 0, 1, 504901800, 10 ** 9, 2 ** 31 - 1, 2 ** 31, 2 ** 33, 2 ** 40]


def concretise(j):
    """Loader state -> file bytes of exactly j['len'] bytes (truncated or zero-padded well-formed image)"""
    def block(c, trz, ver):
        hdr = b"TZif" + (b"\0" if ver == 1 else b"2") + b"\0" * 15
        hdr += struct.pack(">6I", c["ngmt"], c["nstd"], c["nlp"], c["ntr"], c["nty"], c["nch"])
        body = b"".join(struct.pack(">q" if trz == 8 else ">i", 1000 * (i + 1)) for i in range(c["ntr"]))
        body += bytes([0] * c["ntr"])
        body += b"".join(struct.pack(">iBB", 3600, 0, 0) for _ in range(c["nty"]))
        body += b"A" * max(0, c["nch"] - 1) + (b"\0" if c["nch"] else b"")
        body += b"\0" * (c["nlp"] * (trz + 4) + c["nstd"] + c["ngmt"])
        return hdr + body
    if j["v"] == 1:
        d = block(j["c1"], 4, 1)
    else:
        d = block(j["c1"], 4, 2) + block(j["c2"], 8, 2) + b"\n\n"
    d = d[:j["len"]]
    d += b"\0" * (j["len"] - len(d))
    return d


class Faulter:
    def __init__(self, rep, drvpath, env, sdir, kind):
        self.rep, self.sdir, self.kind = rep, sdir, kind
        self.drv = LineDriver(drvpath, timeout=1.5, env=env)
        self.n = 0
        self.opened = 0
        self.path = os.path.join(sdir, "img")

    def case(self, data, label, queries):
        if self.drv.hangs >= 8:          # hang budget: the finding is established, do not wait for more timeouts
            self.skipped = getattr(self, "skipped", 0) + 1
            return None
        self.n += 1
        with open(self.path, "wb") as f:
            f.write(data)
        r = self.drv.cmd("O " + self.path)
        if r in ("hang", "crash"):
            self.report(r, "open", label)
            return None
        if not r.get("ok"):
            return False
        self.opened += 1
        for q in queries:
            a = self.drv.cmd(q)
            if a in ("hang", "crash"):
                self.report(a, "lookup", label)
                return None
        self.drv.cmd("C")
        return True

    def report(self, what, phase, label):
        tail = self.drv.stderr_tail
        site = ""
        if "SUMMARY:" in tail:
            s = tail.split("SUMMARY:")[-1].strip().split("\n")[0]
            import re
            m = re.search(r"(\S+\.c):\d+", s)
            site = (s.split()[1] if len(s.split()) > 1 else "") + " " + (os.path.basename(m.group(1)) if m else "") + " " + (s.split(" in ")[-1] if " in " in s else "")
        self.rep.disagree("%s %s during %s %s" % (self.kind, "does not terminate" if what == "hang" else "memory error", phase, site.strip()),
                          {"case": label, "sanitizer": tail[-700:]})


def main(tier):
    rep = core.Report(PID, tier, "fault_enumeration")
    b = core.Build("plain")
    bs = core.Build("san", tools=False)
    try:
        quick = tier == "quick"
        rng = core.rng("c19")
        p = core.run(["make", "-C", bs.root + "/lib", "-j16", "CC=" + bs.cc, "CFLAGS=" + bs.cflags + " -w"], timeout=900)
        if p.returncode:
            raise core.MachineryError("sanitizer build of lib failed: " + p.stderr[-800:])
        r = core.tlc_must_pass("Loader", "Loader.cfg" if quick else "LoaderThorough.cfg", heap="12g", timeout=1800)
        rep.add_tlc("Loader (Safe, Exact over all small headers and lengths)", r)
        lcases = [core.parse_print(x) for x in r.prints]
        lcases = [c for c in lcases if c and "len" in c]
        r.prints = []
        o = core.tlc("Loader", "LoaderUnchecked.cfg", workers=4, keep_prints=False)
        if "Safe" not in o.violated:
            raise core.MachineryError("negative control failed: unchecked loader not refuted")
        r2 = core.tlc_must_pass("TzMap", "TzMap.cfg" if quick else "TzMapThorough.cfg")
        rep.add_tlc("TzMap (record bisection refines Find; Progress)", r2)
        mcases = [core.parse_print(x) for x in r2.prints]
        mcases = [c for c in mcases if c and "kw" in c]
        sdir = core.scratch("c19")
        # ---------------- zone files
        fz = Faulter(rep, bs.driver("drv_zload"), bs.env, sdir, "zif")
        qz = ["L %d" % t for t in LOOKUPS] + ["R %d" % t for t in LOOKUPS[::3]]
        # (1) every Loader state
        mism = 0
        for j in lcases:
            res = fz.case(concretise(j), "loader-model v%d len=%d c1=%s c2=%s" % (j["v"], j["len"], j["c1"], j["c2"]), qz[:6])
            if res is not None and res and j["refuse"]:
                # opened although the model's loader refuses: only a drift of the model unless ASan objects (it did not)
                mism += 1
        rep.notes["loader_model_drift"] = mism
        core.log("loader model cases: %d (opened %d)" % (fz.n, fz.opened))
        # (2) real and synthetic seed files: all truncations, count corruptions, magic/version
        seeds = []
        for name in ["Asia/Kathmandu", "Europe/Berlin", "America/New_York", "Asia/Hebron", "UTC", "Australia/Lord_Howe"][: 3 if quick else 6]:
            try:
                seeds.append((name, open("/usr/share/zoneinfo/" + name, "rb").read()))
            except OSError:
                pass
        for ver in (1, 2, 3):
            pth = os.path.join(sdir, "syn%d" % ver)
            seeds.append(("synthetic-v%d" % ver, tzif.write_tzif(pth, [1000, 2000, 3000, 4000], [0, 1, 0, 1], [0, 3600], version=ver)))
        vals = [0, 1, 2, 255, 256, 65536, 2 ** 31 - 1, 2 ** 32 - 1, 0xfffffff0, 0xfffffffc, 0x3fffffff, 0x40000000, 0x20000000, 0x15555556, 0x0ccccccd]
        for name, data in seeds:
            step = 1 if len(data) < 1500 or not quick else 7
            for n in list(range(0, min(len(data), 400))) + list(range(400, len(data) + 1, step)):
                fz.case(data[:n], "%s truncated to %d" % (name, n), qz)
            hdrs = [0]
            k = data.find(b"TZif", 4)
            if k > 0:
                hdrs.append(k)
            for h in hdrs:
                for fld in range(6):
                    off = h + 20 + 4 * fld
                    real = struct.unpack(">I", data[off:off + 4])[0]
                    for v in vals + [real + 1, max(0, real - 1)]:
                        d2 = data[:off] + struct.pack(">I", v & 0xffffffff) + data[off + 4:]
                        fz.case(d2, "%s header@%d field %d := %d" % (name, h, fld, v), qz)
                for v in (b"\0", b"1", b"2", b"3", b"4", b"\xff"):
                    fz.case(data[:h + 4] + v + data[h + 5:], "%s header@%d version := %r" % (name, h, v), qz)
            # type indices beyond the type table
            z = tzif.TZif(data=data)
            if z.trs and k > 0:
                toff = k + 44 + 8 * len(z.trs)
                fz.case(data[:toff] + bytes([200]) + data[toff + 1:], "%s first transition type := 200" % name, qz)
                fz.case(data[:toff + len(z.trs) - 1] + bytes([len(z.ofs)]) + data[toff + len(z.trs):], "%s last transition type := typecnt" % name, qz)
        for blob in (b"", b"T", b"TZif", b"TZif2" + b"\0" * 15, b"\x7fELF" + b"\0" * 60, bytes(rng.randrange(256) for _ in range(300)), b"TZif2" + bytes(rng.randrange(256) for _ in range(400))):
            fz.case(blob, "non-TZif %r..." % blob[:8], qz)
        fz.drv.close()
        rep.count(evaluations=fz.n, distinct=fz.n)
        rep.notes["zone_files_faulted"] = fz.n
        rep.notes["zone_files_opened"] = fz.opened
        core.log("zone file faults: %d cases, %d opened" % (fz.n, fz.opened))
        # ---------------- zone maps
        tzmap = os.path.join(b.lib, "tzmap")
        fm = Faulter(rep, bs.driver("drv_tzmap"), bs.env, sdir, "tzm")
        znames = ["Europe/Berlin", "Asia/Kathmandu", "America/New_York", "UTC"]
        execs = []
        layouts = {}
        for c in mcases:
            layouts.setdefault(tuple(c["kw"]), []).append(c)

        def keyfor(r, nkw):
            # sorted, distinct, word count nkw: r-th key = prefix by rank + padding letters
            base = "K%02d" % r
            ln = 4 * (nkw - 1) + 1 + (r % 4 if nkw > 1 or True else 0)
            ln = max(len(base), min(4 * nkw, ln if ln > 4 * (nkw - 1) else 4 * (nkw - 1) + 1))
            return (base + "x" * 20)[:ln]
        nfind = 0
        # zone names incl. pairs where one is a proper prefix of the other, the longer one first (the compiler keeps one copy of each name)
        allz = ["Etc/GMT+10", "Etc/GMT+1", "Etc/GMT", "EST5EDT", "EST", "Asia/Tokyo", "Europe/Berlin", "Asia/Kathmandu", "America/New_York", "NZ-CHAT", "NZ",
                "UTC"]
        allz = [zname for zname in allz if os.path.exists("/usr/share/zoneinfo/" + zname)]
        variants = []
        for kws in sorted(layouts):
            # the zone name section is padded to a word boundary: take zone lists of every total length residue
            for v in range(4 if kws else 1):
                variants.append((kws, v))
        for kws, v in variants:
            keys = [keyfor(i + 1, kw) for i, kw in enumerate(kws)]
            zl = allz[v:] + allz[:v]
            znames = [zl[(i // (1 + v % 2)) % len(zl)] for i in range(max(1, len(keys)))]    # v odd: neighbours share a zone
            src = os.path.join(sdir, "m.tzmap")
            out = os.path.join(sdir, "m.tzmcc")
            with open(src, "w") as f:
                for i, k in enumerate(keys):
                    f.write("%s\t%s\n" % (k, znames[i % len(znames)]))
            if os.path.exists(out):
                os.unlink(out)
            p = core.run([tzmap, "cc", "-o", out, src], timeout=30)
            if not keys:
                continue
            if p.returncode or not os.path.exists(out):
                rep.disagree("tzmap cc fails on a sorted source", {"keys": keys, "stderr": p.stderr[:200]})
                continue
            data = open(out, "rb").read()
            ex = [{"e": "Reset", "keys": keys, "zones": [znames[i % len(znames)] for i in range(len(keys))]}]
            qs = set(keys)
            for k in keys:
                qs.update((k[:-1], k + "a", k[:-1] + chr(ord(k[-1]) + 1), k[:-1] + chr(ord(k[-1]) - 1)))
            qs.update(("", "A", "zzzz", "K", "K0", "K99xxxxxxxxxxxxx"))
            qs = sorted(q for q in qs if "\t" not in q and "\n" not in q)
            with open(fm.path, "wb") as f:
                f.write(data)
            fm.n += 1
            r_ = fm.drv.cmd("O " + fm.path)
            if not isinstance(r_, dict) or not r_.get("ok"):
                rep.disagree("tzm_open fails on a compiled map", {"keys": keys, "answer": r_})
                continue
            for q in qs:
                if fm.drv.hangs >= 8:
                    break
                a = fm.drv.cmd("F " + q)
                nfind += 1
                if a in ("hang", "crash"):
                    fm.report(a, "find", "keys=%s key=%r" % (keys, q))
                    fm.drv.cmd("O " + fm.path)
                    continue
                ex.append({"e": "Find", "key": q, "r": a.get("r") or ""})
            execs.append(ex)
            # faults on the compiled map: all truncations and word corruptions
            if len(keys) >= 2 and (not quick or len(execs) % 24 == 0):
                fq = ["F " + q for q in qs[:12]]
                for n in range(0, len(data) + 1):
                    fm.case(data[:n], "map %s truncated to %d" % (keys, n), fq)
                for off in range(4, len(data), 4):
                    # boundary values of 32-bit offset arithmetic: zero, all ones, just below 2^32 (a header size added to it wraps), the
                    # sign bit, the file length and its neighbours
                    for v in (0, 0xffffffff, 0x00ffff00, 0x41414141, len(data), 1, 0xfffffff0, 0xfffffff4, 0xfffffff8, 0xfffffffc, 0xffffffef,
                              0x80000000, 0x7fffffff, len(data) - 16, len(data) - 15, len(data) - 17, len(data) + 16):
                        v &= 0xffffffff
                        fm.case(data[:off] + struct.pack(">I", v) + data[off + 4:], "map %s word@%d := %#x" % (keys, off, v), fq)
        # the shipped maps: every key of the source is found
        for nm in ("iata", "icao", "mic"):
            srcf = os.path.join(core.REPO, "lib", nm + ".tzmap")
            ccf = os.path.join(b.lib, nm + ".tzmcc")
            if not (os.path.exists(srcf) and os.path.exists(ccf)):
                continue
            pairs = [l.rstrip("\n").split("\t") for l in open(srcf, errors="replace") if "\t" in l]
            pairs = [p_ for p_ in pairs if len(p_) == 2 and p_[0] and p_[1]]
            if quick:
                pairs = pairs[:: max(1, len(pairs) // 400)]
            fm.drv.cmd("O " + ccf)
            got = {}
            for k, zn in pairs:
                if fm.drv.hangs >= 8:
                    break
                a = fm.drv.cmd("F " + k)
                nfind += 1
                if a in ("hang", "crash"):
                    fm.report(a, "find", "%s key=%r" % (nm, k))
                    fm.drv.cmd("O " + ccf)
                    continue
                got[k] = a.get("r")
            miss = [(k, zn, got.get(k)) for k, zn in pairs if k in got and got[k] != zn and got[k] is not None]
            # keys whose zone is not installed are skipped by `tzmap cc -e`: only wrong answers count
            if miss:
                rep.disagree("shipped map %s answers a wrong zone" % nm, {"first": miss[:3], "count": len(miss)})
        # keys at the length limit: what `tzmap check` accepts (up to 255 characters) must be in the compiled map
        lens = [1, 2, 3, 4, 5, 8, 127, 128, 129, 200, 252, 253, 254, 255]
        lkeys = ["A" * n_ for n_ in lens]
        src = os.path.join(sdir, "len.tzmap")
        out = os.path.join(sdir, "len.tzmcc")
        with open(src, "w") as f:
            for i, k in enumerate(lkeys):
                f.write("%s\t%s\n" % (k, allz[i % len(allz)]))
        pc = core.run([tzmap, "check", src], timeout=30)
        p = core.run([tzmap, "cc", "-o", out, src], timeout=30)
        if pc.returncode != 0 or p.returncode != 0 or not os.path.exists(out):
            rep.disagree("tzmap check/cc refuse a source with keys of 1..255 characters", {"check_rc": pc.returncode, "cc_rc": p.returncode, "stderr": (pc.stderr + p.stderr)[:300]})
        else:
            with open(fm.path, "wb") as f:
                f.write(open(out, "rb").read())
            fm.n += 1
            r_ = fm.drv.cmd("O " + fm.path)
            ex = [{"e": "Reset", "keys": lkeys, "zones": [allz[i % len(allz)] for i in range(len(lkeys))]}]
            if isinstance(r_, dict) and r_.get("ok"):
                for q in lkeys + ["A" * 6, "A" * 126, "A" * 251, "A" * 256, "A" * 300, "B"]:
                    a = fm.drv.cmd("F " + q)
                    nfind += 1
                    if a in ("hang", "crash"):
                        fm.report(a, "find", "length keys, key of %d characters" % len(q))
                        fm.drv.cmd("O " + fm.path)
                        continue
                    ex.append({"e": "Find", "key": q, "r": a.get("r") or ""})
                execs.append(ex)
            else:
                rep.disagree("tzm_open fails on a compiled map", {"keys": "lengths %s" % lens, "answer": r_})
        # a large source: thousands of keys over few zones.  The compiled map stores a zone name once and addresses it with a 16-bit offset
        # into the name pool, so the answer for a late key depends on every earlier line having shared its name (pool well below 64 KiB)
        nbig = 8000 if quick else 40000
        bkeys = ["K%06d" % i for i in range(nbig)]
        bz = [allz[(i * 7 + i // 97) % min(len(allz), 12)] for i in range(nbig)]
        src = os.path.join(sdir, "big.tzmap")
        out = os.path.join(sdir, "big.tzmcc")
        with open(src, "w") as f:
            for k, zn in zip(bkeys, bz):
                f.write("%s\t%s\n" % (k, zn))
        p = core.run([tzmap, "cc", "-o", out, src], timeout=120)
        if p.returncode != 0 or not os.path.exists(out):
            rep.disagree("tzmap cc refuses a large sorted source", {"keys": nbig, "rc": p.returncode, "stderr": p.stderr[:300]})
        else:
            with open(fm.path, "wb") as f:
                f.write(open(out, "rb").read())
            fm.n += 1
            r_ = fm.drv.cmd("O " + fm.path)
            sel = sorted(set(list(range(40)) + list(range(nbig - 160, nbig)) + [rng.randrange(nbig) for _ in range(200)] + list(range(0, nbig, max(1, nbig // 100)))))
            ex = [{"e": "Reset", "keys": [bkeys[i] for i in sel], "zones": [bz[i] for i in sel]}]
            if isinstance(r_, dict) and r_.get("ok"):
                for i in sel:
                    a = fm.drv.cmd("F " + bkeys[i])
                    nfind += 1
                    if a in ("hang", "crash"):
                        fm.report(a, "find", "large map, key %d of %d" % (i, nbig))
                        fm.drv.cmd("O " + fm.path)
                        continue
                    ex.append({"e": "Find", "key": bkeys[i], "r": a.get("r") or ""})
                execs.append(ex)
            else:
                rep.disagree("tzm_open fails on a compiled map", {"keys": "large map of %d keys" % nbig, "answer": r_})
            rep.notes["large_map"] = {"keys": nbig, "zones": len(set(bz)), "compiled_bytes": os.path.getsize(out), "looked_up": len(sel)}
        fm.drv.close()
        rep.count(evaluations=fm.n + nfind, distinct=fm.n + nfind)
        rep.notes["map_cases"] = fm.n
        rep.notes["map_lookups"] = nfind
        # the same lookup through the tools: MAP:KEY specifications, several per process (maps and zones are kept open by name), with
        # zone names and map names that are prefixes of each other, shorter first and longer first
        pz = [zname for zname in ("Etc/GMT+1", "Etc/GMT+10", "EST", "EST5EDT", "NZ-CHAT", "NZ", "Etc/GMT-1", "Etc/GMT-14", "UTC", "Asia/Tokyo") if os.path.exists("/usr/share/zoneinfo/" + zname)]
        mdir = os.path.join(sdir, "maps")
        os.makedirs(mdir, exist_ok=True)
        tkeys = ["K%02d" % (i + 1) for i in range(len(pz))]     # ascending, as the compiler demands
        # keys may contain colons themselves: MAP:KEY is split at the first one
        tkeys = tkeys[:-2] + ["X:LON", "Y:a:b"] if len(tkeys) > 4 else tkeys
        for mname, rot in (("pfx", 0), ("pfx2", 3), ("p", 5)):
            with open(os.path.join(mdir, mname + ".tzmap"), "w") as f:
                for i, k in enumerate(tkeys):
                    f.write("%s\t%s\n" % (k, pz[(i + rot) % len(pz)]))
            core.run([tzmap, "cc", "-o", os.path.join(mdir, mname + ".tzmcc"), os.path.join(mdir, mname + ".tzmap")], timeout=30)
        menv = {"TZMAP_DIR": mdir}
        when = "2021-07-01T12:00:00"
        dzone_t = b.tool("dzone")
        zrow = {}
        for zname in pz:
            p = core.run([dzone_t, zname, when], timeout=20)
            zrow[zname] = p.stdout.split("\t")[0]
        rng_ = core.rng("c19tool")
        specs_ = [(m_, k, pz[(i + rot) % len(pz)]) for m_, rot in (("pfx", 0), ("pfx2", 3), ("p", 5)) for i, k in enumerate(tkeys)]
        orders = [specs_[:len(tkeys)], specs_[:len(tkeys)][::-1], specs_, specs_[::-1]]
        for _ in range(4 if quick else 40):
            o_ = list(specs_)
            rng_.shuffle(o_)
            orders.append(o_[: rng_.randrange(2, 9)])
        for o_ in orders:
            p = core.run([dzone_t] + ["%s:%s" % (m_, k) for m_, k, _ in o_] + [when], timeout=30, env=menv)
            rows = p.stdout.splitlines()
            ex = [{"e": "Reset", "keys": ["%s:%s" % (m_, k) for m_, k, _ in specs_], "zones": [zn for _, _, zn in specs_]}]
            for i, (m_, k, zn) in enumerate(o_):
                got = rows[i].split("\t")[0] if i < len(rows) else "(no row)"
                ex.append({"e": "Tool", "key": "%s:%s" % (m_, k), "r": got, "rows": zrow, "cmd": "dzone " + " ".join("%s:%s" % (a_, b_) for a_, b_, _ in o_)})
            execs.append(ex)
        for (m1, k1, z1), (m2, k2, z2) in [(a_, b_) for a_ in specs_[:6] for b_ in specs_[:10] if a_ != b_][:: 1 if not quick else 3]:
            one = core.run([b.tool("dconv"), "--from-zone", "%s:%s" % (m1, k1), "--zone", "%s:%s" % (m2, k2), "-f", "%FT%T", when], timeout=20, env=menv)
            ref = core.run([b.tool("dconv"), "--from-zone", z1, "--zone", z2, "-f", "%FT%T", when], timeout=20)
            if one.stdout != ref.stdout:
                rep.disagree("dconv --from-zone MAP:KEY --zone MAP:KEY differs from the run with the mapped zone names",
                             {"from": "%s:%s=%s" % (m1, k1, z1), "to": "%s:%s=%s" % (m2, k2, z2), "got": one.stdout.strip(), "want": ref.stdout.strip()})
        nval, rejected, st = core.validate_batches("TzMapTrace", "TzMapTrace.cfg", execs, max_reject=30)
        rep.cov["states"] += st
        rep.cov["transitions"] += st
        rep.count(traces=nval)
        for ei, pos, ex in rejected:
            bad = ex[pos] if pos < len(ex) else {}
            present = bad.get("key") in ex[0]["keys"]
            if bad.get("e") == "Tool":
                rep.disagree("dzone MAP:KEY row is not the row of the mapped zone (several specifications in one process)", {"rejected_event": {k_: bad[k_] for k_ in ("key", "r", "cmd")}})
                continue
            rep.disagree("tzm_find wrong answer for %s key" % ("a present" if present else "an absent"),
                         {"keys": ex[0]["keys"], "rejected_event": bad})
        if execs:
            rep.sample({"map_execution": execs[len(execs) // 2][:4]})
        # long map names through the tool (path building)
        dconv = bs.tool("dconv") if os.path.exists(bs.tool("dconv")) else b.tool("dconv")
        for ln in (10, 200, 250, 255, 256, 257, 300, 1000, 5000):
            p = core.run([b.tool("dconv"), "--zone", "M" * ln + ":KEY", "2012-03-04T12:00:00"], timeout=20, env={"TZMAP_DIR": "/" + "d" * 200})
            if p.returncode not in (0, 1, 2):
                rep.disagree("dconv crashes on a long zone map name", {"len": ln, "rc": p.returncode, "stderr": p.stderr[-200:]})
        rep.sample({"loader_case": lcases[len(lcases) // 3] if lcases else None})
        rep.cov["rule"] = ("one case = one file image handed to zif_open / tzm_open under ASan+bounds followed by lookups: every Loader model state, "
                           "every truncation length, every header count of both headers set to 10 values, version bytes, type indices, "
                           "non-TZif blobs, for 6|9 seed files; every TzMap layout compiled and every present/neighbouring/absent key looked "
                           "up; truncations and word corruptions of compiled maps; distinct = distinct images / lookups")
        rep.assumptions += ["memory safety is observed by ASan + the UBSan bounds check with the image in an exact-size heap block (mmap redirected)",
                            "a refused open is a clean failure; an accepted corrupt file is fine as long as all lookups stay inside the loaded data"]
        return rep.finish()
    finally:
        b.close()
        bs.close()


def replay(path):
    print(open(path).read())
    return 0
