"""C09 -- parsing inverts formatting for every date/time format.
Spec: Format.tla -- the specifier grammar of lib/token.c as a generator of format strings with the scope predicates Complete
(the specifiers together determine the value; calendar families) and Unamb2 (adjacent fields can be told apart); TLC explores
every format up to the size bound and checks that the parser's calendar choice (transcribed __guess_dtyp) agrees with the
family (GuessAgrees, OneFamily).
A: every emitted format x value set (year-type boundaries, leap days, one day per month, far years; clock boundary times;
business days for bizda forms; windows around --base for 2- and 1-digit years) x held representation is replayed through
dt_strfdt -> dt_strpdt; the parse must return the value and consume the whole text.  Name specifiers additionally under
shipped locales with prefix-free tables.  Default outputs of ymd/ymcw/ywd/yd/bizda, date-times and times through the
format-less parser.
B: samples of those runs and dconv -f / dconv -i round trips (argument and whole-line stdin) are validated by
FormatTrace.tla, which re-evaluates the scope on the recorded tokens."""
import os, re, json, datetime, itertools, collections, subprocess
from concurrent.futures import ThreadPoolExecutor
from vlib import core, chain as chainmod
from checks import calcommon as cc

PID = "C09"
BASE = "2000-06-15"


def fstr(f):
    s = f["t"][0]
    for sep, t in zip(f["s"], f["t"][1:]):
        s += sep + t
    return s


def formats(rep, cfgs):
    out = []
    for cfg in cfgs:
        r = core.tlc_must_pass("Format", cfg, workers=16, timeout=2400, heap="16g")
        rep.add_tlc("Format (%s: GuessAgrees, OneFamily; formats emitted)" % cfg, r)
        n = 0
        for line in r.prints:
            j = core.parse_print(line)
            if j and "t" in j:
                out.append(j)
                n += 1
        r.prints = []
        if not n:
            raise core.MachineryError("Format/%s emitted no formats" % cfg)
    # distinct by (format string, kind)
    seen = {}
    for f in out:
        seen.setdefault((fstr(f), f["k"]), f)
    return list(seen.values())


def date_values(quick):
    D = datetime.date
    s = set()
    seen = set()
    for y in range(1995, 2030):
        k = (D(y, 1, 1).isoweekday(), y % 4 == 0)
        if k in seen:
            continue
        seen.add(k)
        for md in ([(12, 29), (12, 31), (1, 1), (1, 3)] if quick else [(12, 28), (12, 29), (12, 30), (12, 31), (1, 1), (1, 2), (1, 3), (1, 4), (2, 28), (3, 1)]):
            s.add(D(y, *md))
    for m in range(1, 13):
        s.add(D(2003, m, 3 + m))            # every month, all weekdays
        s.add(D(2004, m, 28 if m == 2 else 30))
    s.update([D(2000, 2, 29), D(2004, 2, 29), D(2001, 9, 9), D(2008, 5, 31), D(2005, 10, 10), D(2009, 1, 11)])
    s.update([D(1601, 1, 1), D(1700, 3, 1), D(1900, 2, 28), D(1969, 12, 31), D(1970, 1, 1), D(2038, 1, 19), D(2100, 3, 1), D(2400, 2, 29),
              D(4000, 2, 29), D(4094, 1, 1)])
    if not quick:
        for y in (1951, 1952, 1999, 2000, 2001, 2048, 2049, 1950):
            for md in ((1, 1), (6, 15), (12, 31)):
                s.add(D(y, *md))
        rng = core.rng("c09d")
        for _ in range(150):
            s.add(D.fromordinal(rng.randrange(D(1601, 1, 1).toordinal(), D(4094, 1, 1).toordinal())))
    return sorted(s)


NEEDLE_SUPPORTED = {"%Y", "%y", "%_y", "%G", "%g", "%m", "%-m", "% m", "%mth", "%b", "%B", "%_b", "%d", "%-d", "%dth", "%j", "%-j", "%jth", "%a", "%A", "%_a", "%u", "%w",
                    "%c", "%cth", "%V", "%U", "%W", "%C", "%F", "%0m", "%rY", "%h", "%D", "% d", "%-c", "%-V"}
FIXED_FIRST = {"%Y", "%G", "%rY", "%y", "%g", "%m", "%0m", "%d", "%j", "%D", "%w", "%c", "%V", "%U", "%W", "%C", "%F", "%H", "%I", "%M", "%S", "%T"}
TIMES_Q = ["00:00:00", "00:00:01", "09:05:07", "11:59:59", "12:00:00", "12:00:01", "13:00:00", "23:59:59", "00:59:59", "12:59:59"]
NS = [0, 1, 123456789, 999999999, 100000000, 10]


def admissible(f, d):
    """value restrictions that belong to the format's scope (windows around --base, business days)"""
    if f["k"] == "t":
        return True
    y = d.year
    iy = d.isocalendar()[0]
    if f["win"] == "decade" and not (2000 <= y <= 2009 and 2000 <= iy <= 2009):
        return False
    if f["win"] == "century" and not (1951 <= y <= 2048 and 1951 <= iy <= 2048):
        return False
    if f["biz"] and d.isoweekday() > 5:
        return False
    return True


def fixed_head(f):
    """all fields in front of the first literal are fixed-width digit fields (the line scanner locates a value by that literal)"""
    for i, t in enumerate(f["t"]):
        if t not in FIXED_FIRST:
            return False
        if i < len(f["s"]) and f["s"][i] != "":
            return True
    return True


def bizda_text(d):
    n = sum(1 for k in range(1, d.day + 1) if datetime.date(d.year, d.month, k).isoweekday() <= 5)
    return "%04d-%02d-%02db" % (d.year, d.month, n)


def cases_for(f, dates, times, ks):
    """generator of (K, value text, ns) for one format"""
    has_ns = "%N" in f["t"]
    if f["k"] == "d":
        for K in ks:
            for d in dates:
                if not admissible(f, d):
                    continue
                if K == 3:
                    # no conversion TO bizda exists: a bizda-held value comes from bizda text (business days only)
                    if d.isoweekday() <= 5:
                        yield 0, bizda_text(d), 0
                else:
                    yield K, d.isoformat(), 0
    elif f["k"] == "t":
        for i, t in enumerate(times):
            yield 0, t, (NS[i % len(NS)] if has_ns else 0)
    else:
        for K in ks:
            if K == 3:
                continue
            for i, d in enumerate(dates):
                if admissible(f, d):
                    t = times[i % len(times)]
                    ns = NS[i % len(NS)] if has_ns else 0
                    if f["t"] == ["%s"] and not (1902 <= d.year <= 2037 or True):
                        continue
                    yield K, d.isoformat() + "T" + t, ns


def run_shards(drv, env, work, dates, times, locale=None):
    """work: list of (format, ks).  The driver iterates the value lists itself (RUN) and prints failures and sampled successes only.
    Returns (ncases, bad[list of (format, K, value, ns, line)], samples[same])"""
    n = core.NCPU
    chunks = [work[i::n] for i in range(n)]
    pre = ["B " + BASE]
    if locale:
        pre += ["LI " + locale, "LF " + locale]
    for d in dates:
        y, iy = d.year, d.isocalendar()[0]
        fl = (1 if (1951 <= y <= 2048 and 1951 <= iy <= 2048) else 0) | (2 if (2000 <= y <= 2009 and 2000 <= iy <= 2009) else 0) | (4 if d.isoweekday() <= 5 else 0)
        pre.append("D+ %s %d %s" % (d.isoformat(), fl, bizda_text(d) if d.isoweekday() <= 5 else "-"))
    for t in times:
        pre.append("T+ " + t)

    def one(chunk):
        lines = list(pre)
        for f, ks in chunk:
            lines.append("F\t" + fstr(f))
            kmask = sum(1 << k for k in ks)
            lines.append("RUN %s %d %d %d %d" % ({"d": "d", "t": "t", "dt": "x"}[f["k"]], {"all": 0, "century": 1, "decade": 2}[f["win"]], 1 if f["biz"] else 0,
                                               kmask, 1 if "%N" in f["t"] else 0))
        p = subprocess.run([drv], input=("\n".join(lines) + "\n").encode(), stdout=subprocess.PIPE, stderr=subprocess.PIPE, env=env, timeout=6000)
        if p.returncode != 0:
            raise core.MachineryError("drv_fmt failed rc=%s %s" % (p.returncode, p.stderr[-800:]))
        bad, samp, cnt, fi = [], [], 0, 0
        for ln in p.stdout.decode("utf-8", "replace").split("\n"):
            if not ln:
                continue
            if ln[0] == "#":
                cnt += int(ln.split("\t")[1])
                fi += 1
                continue
            f = chunk[fi][0] if fi < len(chunk) else chunk[-1][0]
            parts = ln.split("\t")
            tag = parts[6].split(" ") if len(parts) > 6 else ["0", "?", "0"]
            K, v, ns = int(tag[0]) if tag[0].isdigit() else 0, tag[1] if len(tag) > 1 else "?", int(tag[2]) if len(tag) > 2 and tag[2].isdigit() else 0
            if ln[0] == "=":
                samp.append((f, K, v, ns, ln))
            elif len(bad) < 20000:
                bad.append((f, K, v, ns, ln))
        if fi != len(chunk):
            raise core.MachineryError("drv_fmt answered %d of %d formats" % (fi, len(chunk)))
        return cnt, bad, samp
    tot, bad, samp = 0, [], []
    with ThreadPoolExecutor(max_workers=n) as ex:
        for c, b_, s_ in ex.map(one, chunks):
            tot += c
            bad += b_
            samp += s_
    return tot, bad, samp


def event(f, K, v, ns, ln, src="lib"):
    parts = ln.split("\t")
    if len(parts) < 6:
        return {"e": "Round", "t": f["t"], "s": f["s"], "k": f["k"], "text": ln[:60], "used": -1, "len": 0, "v": v, "p": "?", "K": K, "src": src, "fmt": fstr(f)}
    return {"e": "Round", "t": f["t"], "s": f["s"], "k": f["k"], "text": parts[1][:80], "used": int(parts[2]), "len": int(parts[3]),
            "v": parts[4], "p": parts[5], "K": K, "value": v, "ns": ns, "src": src, "fmt": fstr(f)}


def attribute(all_formats, bad):
    """key every failing format by the token that fails most often among the formats containing it"""
    tot = collections.Counter()
    fail = collections.Counter()
    badf = {}
    for f in all_formats:
        for t in set(f["t"]):
            tot[(t, f["k"])] += 1
    for f, K, v, ns, ln in bad:
        badf.setdefault((fstr(f), f["k"]), (f, []))[1].append((K, v, ns, ln))
    for (fs, k), (f, _) in badf.items():
        for t in set(f["t"]):
            fail[(t, k)] += 1
    keys = {}
    for (fs, k), (f, lst) in badf.items():
        best = max(set(f["t"]), key=lambda t: (fail[(t, k)] / max(1, tot[(t, k)]), t))
        kk = "roundtrip token %s (%s, %s)" % (best, {"d": "date", "t": "time", "dt": "date-time"}[k], f["cal"])
        keys.setdefault(kk, []).append((f, lst))
    return keys


def main(tier):
    rep = core.Report(PID, tier, "model_checking")
    b = core.Build("plain")
    try:
        quick = tier == "quick"
        rng = core.rng("c09")
        sfx = "" if quick else "Thorough"
        fm = formats(rep, ["FormatDate3%s.cfg" % sfx, "FormatDate4%s.cfg" % sfx, "FormatTime%s.cfg" % sfx, "FormatDT%s.cfg" % sfx])
        rep.notes["formats"] = dict(collections.Counter(f["k"] for f in fm))
        drv = b.driver("drv_fmt", link_lib=True)
        locfile = os.path.join(b.root, "data", "locale")
        env = dict(os.environ, LOCALE_FILE=locfile)
        dates = date_values(quick)
        times = TIMES_Q
        rep.notes["values"] = {"dates": len(dates), "times": len(times)}
        # held representations: as parsed (ymd) for every format; the other calendars on every 5th format (quick) / all (thorough)
        work = []
        for i, f in enumerate(fm):
            ks = [0]
            if f["k"] != "t" and (not quick or i % 5 == 0):
                ks += [2, 4, 5, 6] + ([3] if f["biz"] or i % 3 == 0 else [])
            work.append((f, ks))
        tot, bad, samp = run_shards(drv, env, work, dates, times)
        core.log("replay: %d formats, %d round trips, %d failed" % (len(fm), tot, len(bad)))
        rep.count(evaluations=tot, distinct=len(fm))
        lib_keys = attribute(fm, bad)
        for key, lst in lib_keys.items():
            f, cases = lst[0]
            K, v, ns, ln = cases[0]
            rep.disagree(key, {"formats_failing": len(lst), "first_format": fstr(f), "value": v, "held": K, "driver_line": ln[:200],
                               "more": [fstr(x[0]) for x in lst[1:6]]})
        # ---- locales: name specifiers under shipped locales with prefix-free tables
        from checks.c20 import read_locales
        locs = read_locales(locfile)

        def pf(xs):
            low = [x.lower() for x in xs]
            return len(set(low)) == len(low) and all(x.strip() for x in xs) and not any(x != y and y.startswith(x) for x in low for y in low)
        good = sorted(l for l in locs if l != "C" and all(pf(locs[l][k]) for k in ("lm", "am", "lw", "aw"))
                      and not any(re.search(r"[\d%]", x) for k in ("lm", "am", "lw", "aw") for x in locs[l][k]))
        rng.shuffle(good)
        use = good[: 6 if quick else len(good)]
        namef = [f for f in fm if f["k"] == "d" and any(t in ("%a", "%A", "%b", "%B", "%h") for t in f["t"]) and len(f["t"]) == 3
                 and all(s in ("-", " ") for s in f["s"]) and not f["biz"]]
        namef = namef[:: 6 if quick else 2]
        ldates = [d for d in dates if 1951 <= d.year <= 2048][:40]
        ltot = lbadn = 0
        for lc in use:
            t2, b2, s2 = run_shards(drv, env, [(f, [0]) for f in namef], ldates, times, locale=lc)
            ltot += t2
            lbadn += len(b2)
            for key, lst in attribute(namef, b2).items():
                f, cases = lst[0]
                rep.disagree(key + " under a shipped locale", {"locale": lc, "formats_failing": len(lst), "first_format": fstr(f), "value": cases[0][1],
                                                                  "driver_line": cases[0][3][:200]})
            samp += s2[:3]
        core.log("locales: %d locales x %d formats: %d round trips, %d failed" % (len(use), len(namef), ltot, lbadn))
        rep.count(evaluations=ltot, distinct=len(use))
        rep.notes["locales"] = {"shipped": len(locs) - 1, "prefix_free": len(good), "used": len(use)}
        # ---- default formats through the format-less parser
        dd = dates if quick else dates + [datetime.date.fromordinal(o) for o in range(datetime.date(1999, 12, 1).toordinal(), datetime.date(2010, 2, 1).toordinal())]
        lines = []
        order = []
        for K in (0, 2, 3, 4, 5):
            lines.append("K %d" % (0 if K == 3 else K))
            for d in dd:
                if K == 3 and d.isoweekday() > 5:
                    continue
                lines.append("D " + (bizda_text(d) if K == 3 else d.isoformat()))
                order.append((K, d.isoformat()))
                if K == 0:
                    lines.append("D %sT%s" % (d.isoformat(), times[len(order) % len(times)]))
                    order.append((K, "datetime " + d.isoformat()))
        lines.append("K 0")
        for t in times:
            lines.append("D " + t)
            order.append((0, t))
        p = subprocess.run([drv], input=("\n".join(lines) + "\n").encode(), stdout=subprocess.PIPE, stderr=subprocess.PIPE, env=env, timeout=600)
        out = p.stdout.decode("utf-8", "replace").split("\n")
        devs = []
        CAL = {0: "ymd", 2: "ymcw", 3: "bizda", 4: "ywd", 5: "yd"}
        for (K, v), ln in zip(order, out):
            parts = ln.split("\t")
            ok = ln.startswith("=")
            if not ok:
                rep.disagree("default output of %s not read back by the format-less parser" % CAL[K], {"value": v, "driver_line": ln[:200]})
            if not ok or len(devs) < 60:
                if len(parts) >= 6:
                    devs.append({"e": "Default", "cal": CAL[K], "text": parts[1], "used": int(parts[2]), "len": int(parts[3]), "v": parts[4], "p": parts[5]})
        rep.count(evaluations=len(order), distinct=len(order))
        # ---- direction B: the dconv tool, format as -f and -i, text as argument and as whole stdin line
        tool_events = []
        pick = [f for f in fm if "\t" not in fstr(f)]
        rng.shuffle(pick)
        pick = pick[: 160 if quick else 1500]
        dconv = b.tool("dconv")

        def tool_rt(f):
            evs = []
            fs = fstr(f)
            vals = list(itertools.islice(((K, v, ns) for K, v, ns in cases_for(f, dates, times, [0]) if ns == 0), 0, None, 7))[:3]
            for K, v, ns in vals:
                canon = {"d": "%F", "t": "%T", "dt": "%FT%T"}[f["k"]]
                p1 = core.run([dconv, "--base", BASE, "-f", fs, v], timeout=20, env={"LOCALE_FILE": locfile})
                text = p1.stdout[:-1] if p1.stdout.endswith("\n") else p1.stdout
                for mode in ("arg", "stdin"):
                    if mode == "arg":
                        p2 = core.run([dconv, "--base", BASE, "-i", fs, "-f", canon, "--", text], timeout=20, env={"LOCALE_FILE": locfile})
                    else:
                        # whole-line stdin: formats starting with a fixed-width numeric field (the property's observation point)
                        if "\n" in text or not fixed_head(f):
                            continue
                        p2 = core.run([dconv, "--base", BASE, "-i", fs, "-f", canon], timeout=20, env={"LOCALE_FILE": locfile}, inp=text + "\n")
                    got = p2.stdout.strip()
                    ok = p2.returncode == 0 and got == v
                    evs.append({"e": "Round", "t": f["t"], "s": f["s"], "k": f["k"], "text": text[:80], "len": max(1, len(text)), "used": len(text) if ok else 0,
                                "v": v, "p": got[:60] if got else "rc=%d" % p2.returncode, "src": "dconv-" + mode, "fmt": fs, "cal": f["cal"]})
            return evs
        with ThreadPoolExecutor(max_workers=core.NCPU) as ex:
            for evs in ex.map(tool_rt, pick):
                tool_events += evs
        # texts that *begin* like one of the words the tools read as a moment of their own (now, today, date, time, tomo[rrow], yest[erday],
        # yday): a literal word in front of the format, in every total length from the word's own up to 18 more (the word table is asked
        # with a length), and month names of shipped locales that start that way; such a text is a value of the format, not the word
        deco = []
        simple = [f for f in fm if fstr(f) in ("%F", "%Y-%m-%d", "%d.%m.%Y", "%FT%T", "%Y-%m-%d %H:%M:%S")][:3] or fm[:1]
        for word in ("now", "Now", "today", "TODAY", "date", "time", "tomo", "tomorrow", "yest", "yday", "yesterday", "Time"):
            for k in range(0, 19):
                for f in simple[: 1 if quick and k % 3 else len(simple)]:
                    deco.append((f, word + "x" * k + " ", "", None))
        names = []
        for loc, tabs in sorted(locs.items()):
            for key in ("lm", "am"):
                for i, nm in enumerate(tabs.get(key, [])):
                    if nm.lower().startswith(("now", "today", "date", "time", "tomo", "yest", "yday")):
                        names.append((loc, "%B" if key == "lm" else "%b", i + 1, nm))
        for loc, spec, mon, nm in names[: 6 if quick else 60]:
            for k in range(0, 17):
                deco.append(({"t": [spec, "%d", "%Y"], "s": [" ", " "], "k": "d", "cal": "ymd"}, "", " " + "x" * k if k else "", (loc, mon)))

        def deco_rt(job):
            f, pre, suf, lm = job
            fs = pre + fstr(f) + suf
            v = "2021-%02d-05" % lm[1] if lm else ("2012-03-04" if f["k"] == "d" else "2012-03-04T10:11:12")
            canon = {"d": "%F", "t": "%T", "dt": "%FT%T"}[f["k"]]
            la = ["--locale", lm[0]] if lm else []
            li = ["--from-locale", lm[0]] if lm else []
            p1 = core.run([dconv] + la + ["-f", fs, v], timeout=20, env={"LOCALE_FILE": locfile})
            text = p1.stdout[:-1] if p1.stdout.endswith("\n") else p1.stdout
            p2 = core.run([dconv] + li + ["-i", fs, "-f", canon, "--", text], timeout=20, env={"LOCALE_FILE": locfile})
            got = p2.stdout.strip()
            ok = p2.returncode == 0 and got == v
            return {"e": "Round", "t": f["t"], "s": f["s"], "k": f["k"], "text": text[:80], "len": max(1, len(text)), "used": len(text) if ok else 0, "v": v,
                    "p": got[:60] if got else "rc=%d" % p2.returncode, "src": "dconv-arg-word", "fmt": fs, "cal": f.get("cal", "ymd"), "pre": pre, "suf": suf}
        with ThreadPoolExecutor(max_workers=core.NCPU) as ex:
            word_events = list(ex.map(deco_rt, deco))
        tool_events += word_events
        lib_events = [event(*x) for x in samp[:400]] + [event(*x) for x in bad[:40]]
        execs = [[{"e": "Reset"}] + [e] for e in lib_events + tool_events] + [[{"e": "Reset"}] + devs]

        lib_failing = {(fstr(f), f["k"]) for f, K, v, ns, ln in bad}
        tool_bad = [e for e in tool_events if not (e["p"] == e["v"] and e["used"] == e["len"])]
        tool_tot = collections.Counter(t for e in tool_events for t in set(e["t"]))
        tool_fail = collections.Counter(t for e in tool_bad for t in set(e["t"]))

        def tkey(badev, ex):
            if badev.get("e") == "Default":
                return "default output of %s not read back by the format-less parser" % badev.get("cal")
            ts = badev.get("t", [])
            kindname = {"d": "date", "t": "time", "dt": "date-time"}.get(badev.get("k"), "?")

            def libkey(t):
                return "roundtrip token %s (%s, %s)" % (t, kindname, badev.get("cal", "?"))
            # a token that fails in the library replay (or is a recorded finding) explains the tool-level failure too: one finding, one key
            for t in sorted(set(ts)):
                if libkey(t) in lib_keys or (PID, libkey(t).replace(" ", "_")) in rep.known:
                    return libkey(t)
            best = max(set(ts), key=lambda t: (tool_fail[t] / max(1, tool_tot[t]), t)) if ts else "?"
            return "dconv round trip (%s) token %s" % (badev.get("src"), best)
        lib_bad = {id(e) for e in lib_events[400:]}
        cc.validate_and_report(rep, "FormatTrace", "FormatTrace.cfg", [ex for ex in execs if not (len(ex) == 2 and id(ex[1]) in lib_bad)], tkey, "format_round_trip",
                               group=lambda ex: ex[1].get("src", "default") if len(ex) > 1 else "x", per_group_reject=40)
        if bad:
            # binding demonstration on real failures: FormatTrace must reject them too (else the trace spec is vacuous)
            nval, rej, st = core.validate_batches("FormatTrace", "FormatTrace.cfg", [[{"e": "Reset"}, e] for e in lib_events[400:][:5]], max_reject=10)
            if nval:
                raise core.MachineryError("FormatTrace accepted a round trip the driver reported as failed")
        # ---- the line scanner's needle windows (Needle.tla): model-checked, conformance of calc_grep_atom, values found inside lines
        r = core.tlc_must_pass("Needle", "Needle.cfg", workers=16, timeout=1200, heap="8g")
        rep.add_tlc("Needle (Covers: the true start of a value is inside the window the scanner tries)", r)
        nf = [j for j in (core.parse_print(x) for x in r.prints) if j and "ndl" in j]
        r.prints = []
        for cfgname, what in (("NeedlePinned.cfg", "pinned %F/%T offsets"), ("NeedleAll.cfg", "unsupported tokens in front of the needle")):
            o = core.tlc("Needle", cfgname, workers=4, keep_prints=False)
            if "Covers" not in o.violated:
                raise core.MachineryError("negative control failed: %s does not violate Covers" % cfgname)
        rep.notes["needle_controls"] = "NeedlePinned.cfg and NeedleAll.cfg violate Covers as required"
        ndrv = b.driver("drv_needle", link_lib=True, extra_flags=os.path.join(b.src, "libdutio.a"))
        rng.shuffle(nf)
        nsel = nf[: 9000 if quick else 60000]
        pn = subprocess.run([ndrv], input=("\n".join(fstr(f) for f in nsel) + "\n").encode(), stdout=subprocess.PIPE, stderr=subprocess.PIPE, env=env, timeout=600)
        nouts = pn.stdout.decode("utf-8", "replace").split("\n")
        nexecs = []
        for f, o_ in zip(nsel, nouts):
            try:
                j = json.loads(o_)
            except ValueError:
                j = {"ndl": "?", "omin": 0, "omax": 0}
            nexecs.append([{"e": "Reset"}, {"e": "Atom", "t": f["t"], "s": f["s"], "ndl": "nl" if j["ndl"] == "\x01" else j["ndl"], "omin": j["omin"], "omax": j["omax"],
                                            "fmt": fstr(f)}])
        cc.validate_and_report(rep, "NeedleTrace", "NeedleTrace.cfg", nexecs, lambda bad, ex: "needle window of calc_grep_atom differs from Needle.tla", "needle_atom")
        # values inside lines: dconv -S -i FMT must find and convert the value wherever Covers holds and the format is complete
        # (a day-of-month field accepts blanks in front of it by design -- test/dconv.133 -- so a format starting with one takes the separating
        # blank for part of the value: such formats are not used here)
        inline = [f for f in fm if f["k"] == "d" and any(x != "" for x in f["s"]) and all(t in NEEDLE_SUPPORTED for t in f["t"]) and f["win"] == "all" and not f["biz"]
                  and f["t"][0] not in ("%d", "%dth", "%-d", "% d")]
        rng.shuffle(inline)
        inline = inline[: 150 if quick else 1500]

        def inline_rt(f):
            fs = fstr(f)
            res = []
            for d in (datetime.date(2012, 3, 6), datetime.date(2003, 11, 14)):
                p1 = core.run([dconv, "-f", fs, d.isoformat()], timeout=20, env={"LOCALE_FILE": locfile})
                text = p1.stdout.rstrip("\n")
                line = "zz " + text + " yy"
                p2 = core.run([dconv, "-S", "-i", fs, "-f", "%F"], timeout=20, env={"LOCALE_FILE": locfile}, inp=line + "\n")
                got = p2.stdout.rstrip("\n")
                ok = got == "zz " + d.isoformat() + " yy"
                res.append({"e": "Round", "t": f["t"], "s": f["s"], "k": "d", "text": line[:80], "len": len(text) or 1, "used": len(text) if ok else 0, "v": d.isoformat(),
                            "p": d.isoformat() if ok else got[:60], "src": "dconv-inline", "fmt": fs})
            return res
        iev = []
        with ThreadPoolExecutor(max_workers=core.NCPU) as ex:
            for evs in ex.map(inline_rt, inline):
                iev += evs
        ib = collections.Counter(t for e in iev if e["p"] != e["v"] for t in set(e["t"]))
        it = collections.Counter(t for e in iev for t in set(e["t"]))
        cc.validate_and_report(rep, "FormatTrace", "FormatTrace.cfg", [[{"e": "Reset"}, e] for e in iev],
                               lambda bad, ex: "value inside a line not found by dconv -S: token %s" % (max(set(bad.get("t", ["?"])), key=lambda t: (ib[t] / max(1, it[t]), t))),
                               "inline_value")
        rep.cov["rule"] = ("one case = one (format, value, held representation) round trip dt_strfdt -> dt_strpdt; formats = every complete and unambiguous "
                           "sequence of <= 3 tokens over all 43 date tokens, <= 4 over 20 (ymcw), <= 5 time tokens, <= 4|6 date-time tokens, 3|6 separators "
                           "(incl. adjacency); values = 4|10 days around new year for all 14 year types, leap days, a day per month, far years, 10 clock "
                           "times, ns patterns; every 5th|every format also held as ymcw/ywd/yd/daisy(/bizda); 6|all prefix-free shipped locales")
        rep.assumptions += ["scope of 'determine the value' = Format.tla Complete: exactly one calendar family's fields (ymd/yd may add a weekday), "
                            "%G only with %V, %Y with %U/%W/%C; quarter specifiers are not part of a determining set",
                            "two- and one-digit years are in scope for values inside the window around --base (1951..2048 / 2000..2009 for base 2000-06-15)",
                            "value equality through conversion to the day number (C01's subject) + h:m:s.ns", "dates up to 4094-01-01 (day-count tail is a C01 finding)"]
        return rep.finish()
    finally:
        b.close()


def replay(path):
    print(open(path).read())
    return 0
