"""C02 -- conversions round-trip and formatting is representation-independent.
Spec: Calendar.tla incl. the action property SuccProps (consecutive days -> consecutive values in every calendar,
hence injective projections) checked by TLC on the whole chain.
A: every day: all ordered pairs R->T->R (bit pattern comes back), successor step, Hijri inside its table,
specifier text independent of the held representation; on the boundary windows additionally all triples and the
full specifier-order matrix strf('%S1|%S2') = strf('%S1')|strf('%S2').
B: tool paths that hand differently held values to the formatter (dseq: day count, dadd +0d: as parsed,
dround: as parsed) validated by CalendarTrace."""
from vlib import core, chain as chainmod, caldrv
from checks import calcommon as cc
from checks.c01 import CLI_FMT, CLI_KEYS

PID = "C02"


def tool_paths(rep, b, ch, ldns):
    execs = []
    nrun = 0
    dadd, dseq, dround, dconv = b.tool("dadd"), b.tool("dseq"), b.tool("dround"), b.tool("dconv")
    rows = [ch.row(l) for l in ldns]

    def add(src, r, line):
        parts = line.split("|")
        txt = dict(zip(CLI_KEYS, parts)) if len(parts) == len(CLI_KEYS) else {"F": line}
        execs.append([{"e": "Reset", "y": r[1], "m": r[2], "d": r[3]}, {"e": "Txt", "src": src, "txt": txt}])
    # dadd +0d keeps the notation the value was parsed in
    for kind in ("ymd", "ymcw", "ywd", "yd", "ldn"):
        rs = [r for r in rows if not (kind == "ldn" and r[0] >= caldrv.TAIL_FIRST)]
        inp = "".join(cc.fmt_row(kind, r) + "\n" for r in rs)
        rc, lines, err = cc.tool_lines(dadd, ["-i", cc.INFMT[kind], "-f", CLI_FMT, "+0d"], inp)
        nrun += 1
        if len(lines) != len(rs):
            rep.disagree("cli dadd -i %s +0d: %d lines for %d inputs" % (kind, len(lines), len(rs)), {"stderr": err[:200]})
            continue
        for r, ln in zip(rs, lines):
            add("dadd -i %s +0d" % kind, r, ln)
    # dround to the same weekday is the identity; the value stays as parsed
    for kind in ("ymd", "ywd"):
        for wd in range(1, 8):
            rs = [r for r in rows if r[4] == wd and r[0] < caldrv.TAIL_FIRST]     # dround works on day counts: known tail
            if not rs:
                continue
            inp = "".join(cc.fmt_row(kind, r) + "\n" for r in rs)
            name = ["", "Mon", "Tue", "Wed", "Thu", "Fri", "Sat", "Sun"][wd]
            rc, lines, err = cc.tool_lines(dround, ["-i", cc.INFMT[kind], "-f", CLI_FMT, name], inp)
            nrun += 1
            if len(lines) != len(rs):
                rep.disagree("cli dround -i %s %s: %d lines for %d inputs" % (kind, name, len(lines), len(rs)), {"stderr": err[:200]})
                continue
            for r, ln in zip(rs, lines):
                add("dround -i %s" % kind, r, ln)
    # dseq iterates on day counts: windows of consecutive days, one run each
    for lo, hi in cc.windows(sorted(r[0] for r in rows)):
        hi = min(hi, caldrv.TAIL_FIRST - 1)
        if hi < lo:
            continue
        a, z = ch.row(lo), ch.row(hi)
        rc, lines, err = cc.tool_lines(dseq, [cc.fmt_row("ymd", a), cc.fmt_row("ymd", z), "-f", CLI_FMT], "")
        nrun += 1
        if len(lines) != hi - lo + 1:
            rep.disagree("cli dseq window: %d lines for %d days" % (len(lines), hi - lo + 1), {"first": cc.fmt_row("ymd", a), "stderr": err[:200]})
            continue
        for i, ln in enumerate(lines):
            add("dseq", ch.row(lo + i), ln)
    # Hijri through the tool (command-line arguments: the special input format is honoured there)
    hs = [r for r in rows if r[13]]
    if hs:
        rc, lines, err = cc.tool_lines(dconv, ["-f", "hijri"] + [cc.fmt_row("ymd", r) for r in hs], "")
        nrun += 1
        if len(lines) == len(hs):
            for r, ln in zip(hs, lines):
                execs.append([{"e": "Reset", "y": r[1], "m": r[2], "d": r[3]}, {"e": "Txt", "src": "dconv -f hijri", "txt": {"hijri": ln}}])
        else:
            rep.disagree("cli dconv -f hijri: %d lines for %d inputs" % (len(lines), len(hs)), {"stderr": err[:200]})
        rc, lines, err = cc.tool_lines(dconv, ["-i", "hijri", "-f", "ymd"] + ["%04d-%02d-%02d" % (r[13], r[14], r[15]) for r in hs], "")
        nrun += 1
        if len(lines) == len(hs):
            for r, ln in zip(hs, lines):
                execs.append([{"e": "Reset", "y": r[1], "m": r[2], "d": r[3]}, {"e": "Txt", "src": "dconv -i hijri", "txt": {"F": ln}}])
        else:
            rep.disagree("cli dconv -i hijri: %d lines for %d inputs" % (len(lines), len(hs)), {"stderr": err[:200]})
    rep.notes["tool_runs"] = nrun
    return execs


def views(rep, b, ch):
    dconv = b.tool("dconv")
    lo, hi = chainmod.LDN_1601, 917327 - 1      # day counts convert up to 4094-05-04 only (known finding)
    days = "".join(cc.fmt_row("ymd", ch.row(l)) + "\n" for l in range(lo, hi + 1))
    CUSTOM = {"ymd": "%Y-%m-%d", "ymcw": "%Y-%m-%c-%w", "ywd": "%G-W%V-%u", "yd": "%Y-%j"}
    rc, cust, err = cc.tool_lines(dconv, ["-f", "|".join(CUSTOM[k] for k in ("ymd", "ymcw", "ywd", "yd"))], days, timeout=600)
    n = hi - lo + 1
    if len(cust) != n:
        raise core.MachineryError("dconv custom view: %d lines for %d days: %s" % (len(cust), n, err[:200]))
    cols = [c.split("|") for c in cust]
    for ci, cal in enumerate(("ymd", "ymcw", "ywd", "yd")):
        rc, dflt, err = cc.tool_lines(dconv, ["-f", cal], days, timeout=600)
        if len(dflt) != n:
            raise core.MachineryError("dconv -f %s: %d lines for %d days" % (cal, len(dflt), n))
        bad = [i for i in range(n) if cols[i][ci] != dflt[i]]
        rep.count(evaluations=n, distinct=n)
        if bad:
            i0, i1 = bad[0], bad[-1]
            rep.disagree("custom specifiers %s differ from the default output of %s" % (CUSTOM[cal], cal),
                         {"days": len(bad), "first": cc.fmt_row("ymd", ch.row(lo + i0)), "last": cc.fmt_row("ymd", ch.row(lo + i1)),
                          "custom": cols[i0][ci], "default": dflt[i0]})
    rep.sample({"views": {"day": cust[n // 2]}})


def main(tier):
    rep = core.Report(PID, tier, "model_checking")
    b = core.Build("plain")
    try:
        quick = tier == "quick"
        r = core.tlc_must_pass("Calendar", "Calendar.cfg", heap="12g", keep_prints=False)
        rep.add_tlc("Calendar (whole chain; invariants + action property SuccProps)", r)
        if r.distinct != chainmod.NDAYS_EXPECT:
            raise core.MachineryError("Calendar chain not connected: %d states" % r.distinct)
        ch = chainmod.Chain()
        drv = b.driver("drv_cal", link_lib=True)
        bnd = chainmod.boundary_ldns(core.rng("c02"), width=15 if quick else 40, extra_random=100 if quick else 2000)
        plan = [dict(mode="rt", step=1, args=(0,)),
                dict(mode="rt", ranges=cc.windows(bnd), args=(1,), prefix="bnd ", exhaustive=False)]
        if not quick:
            plan.append(dict(mode="rt", step=7, args=(1,), prefix="all7 ", exhaustive=False))
        cc.run_plan(rep, b, ch, drv, plan)
        # the calendar's own default output (printed from the held representation) against the same fields through custom specifiers
        # (evaluated on the ymd view), on every day up to the day-count tail
        views(rep, b, ch)
        sample = [l for i, l in enumerate(bnd) if i % (5 if quick else 1) == 0]
        ex = tool_paths(rep, b, ch, sample)
        cc.validate_and_report(rep, "CalendarTrace", "CalendarTrace.cfg", ex,
                               lambda bad, e: "cli %s" % bad.get("src", "?"), "tool_execution")
        rep.cov["rule"] = ("A: one case = (day, ordered pair/triple of calendars) round trip compared bitwise, (day, calendar) successor, "
                           "(day, specifier, held representation) text equality, (day, representation, ordered specifier pair) order "
                           "independence; pairs/successors/representation-independence on EVERY day, triples and order matrix on the "
                           "boundary windows; B: one trace = what dadd/dround/dseq/dconv printed for a day, validated by CalendarTrace")
        rep.cov["exhaustive"] = True
        rep.assumptions += ["no conversion to bizda exists in the library (stub): bizda is a source of conversions only",
                            "%dB (business days before ultimo) is implemented for bizda values only and compared there only",
                            "Hijri is judged inside the table range 1318-01-01 AH .. 29 days after the last listed month begin; "
                            "day arithmetic on Hijri values is not offered by the tools"]
        return rep.finish()
    finally:
        b.close()


def replay(path):
    print(open(path).read())
    return 0
