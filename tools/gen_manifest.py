#!/usr/bin/env python3
"""regenerates /verif/MANIFEST.json from the table below and validates it (and any evidence files) against the schemas"""
import json, os, sys, subprocess

V = "/verif"
CHECKS = {
    # id: (category, technique, level text, level note, design_ref)
    "C01": ("model_checking", "TLA+ Calendar chain model-checked by TLC, replayed into libdut (all days) + trace validation of library/dconv events",
            "Calendar.tla is checked exhaustively by TLC (917,933 states, closed-form invariants + anchors); its emitted behaviour is "
            "replayed into the real library for every one of the 911,280 days x 9 source notations x 8 targets x 44 specifiers "
            "(exhaustive on the property's domain), and recorded library / dconv events are validated by CalendarTrace.tla",
            "trusts TLC, the Calendar/Greg modules (two formulations + anchors, self-tested against CPython datetime), gcc; "
            "%w on Sundays accepts 00 and 07; Lilian day 0 = 1582-10-15 as documented; bizda only as a source", "5 C01"),
    "C02": ("model_checking", "TLA+ Calendar chain + SuccProps action property (TLC), round trips / representation independence replayed on all days, tool traces validated by CalendarTrace",
            "TLC checks the whole day chain incl. the action property that consecutive days map to consecutive values in every calendar; "
            "the real library is driven over every day for all ordered calendar pairs, successors, Hijri inside its table and "
            "specifier-vs-held-representation equality, the custom specifiers of each calendar against that calendar's default output on every day, triples "
            "and the specifier order matrix on the boundary windows; "
            "dadd/dround/dseq/dconv outputs are validated by CalendarTrace.tla",
            "trusts TLC + Calendar/Greg/HijriTab (frozen copy of data/ummulqura.tab); no conversion to bizda exists (stub), so bizda is a source only; "
            "%dB only for bizda values; known finding: day-count tail", "5 C02"),
    "C03": ("model_checking", "TLA+ DateArith (DayExact) model-checked, behaviours replayed through dadd; chain replay of day/week adds on all days; CalendarTrace on dadd runs",
            "DateArith.tla (day/week steps are index arithmetic) is model-checked and every reachable behaviour replayed through the dadd tool; "
            "dt_dadd_d/dt_dadd_w are compared with the TLC chain for every day x 9 notations x 112 counts (+ large and seeded counts, "
            "a-then-b and n-then-minus-n laws); dadd runs in five notations are validated by CalendarTrace.tla",
            "counts are enumerated (not all integers): small set on every day, large ones on a stride; results outside 1601..4095 not judged", "5 C03"),
    "C04": ("model_checking", "TLA+ DateArith (lazy clamp: Compose/KeepDay/Valid, eager-clamp negative control) model-checked; all behaviours through dadd; chain replay of month/year adds on all days",
            "the lazy-clamp design is model-checked (composition, keep-day, validity; the eager variant is refuted as a control); every "
            "reachable behaviour (start, <=2|3 steps) is replayed through dadd; dt_dadd_m/dt_dadd_y incl. two-step composition are "
            "compared with MonthAdd/ClampDay on the chain for every day x k in -30..30 months, -12..12 years x {ymd,ymcw,bizda,ywd,yd}",
            "week-based clamps: ymcw = last existing count, ywd = last ISO week, yd = last day of year; results outside the range not judged", "5 C04"),
    "C07": ("model_checking", "TLA+ Biz (counting = closed form, Inverse, Additive) model-checked, table replayed through dadd; chain (bcum) replay of business-day adds/diffs; CalendarTrace on tool runs",
            "Biz.tla is model-checked (definition by counting, closed form, inverse law) and its table replayed through dadd; "
            "dt_dadd_b and business-day ddiff are compared with the chain's cumulative business-day count for (every 3rd|every) day x "
            "notation x |k|<=40|120 and |k|<=700|2600 on a stride; month totals; dconv/dadd runs validated by CalendarTrace.tla",
            "oracle = chain bcum; known finding: ddiff from weekend start backwards (pinned by the suite)", "5 C07"),
    "C08": ("model_checking", "TLA+ Order (total order laws, ymcw order, sort characterisation) model-checked; dt_dcmp/in_range replayed against chain order; dtest/dsort traces validated by OrderTrace",
            "Order.tla is model-checked at small scope; dt_dcmp and dt_d_in_range_p are compared with the chain index order for day pairs "
            "and triples in all 9 notations; dtest exit codes (1200|150000 pairs, incl. operands with UTC offsets -12:00..+14:00 and epoch operands) and "
            "dsort outputs (permutation + order, -r; 60|4000 runs) are validated by OrderTrace.tla",
            "pairs/triples are windows + seeded far pairs (not all 10^11); same notation on both sides; sort ties in any order", "5 C08"),
    "C12": ("model_checking", "TLA+ ZoneSem/ZoneImpl model-checked (Refines, CacheInv, Progress; pinned mechanism and index truncation as negative controls); synthetic TZif replay; all installed zones traced and validated by ZoneTrace",
            "ZoneImpl.tla (bisection + range cache, one action per loop step) is model-checked to refine ZoneSem.tla for every table <=3|4 "
            "transitions and every history of <=2|3 queries; every model table is written as a synthetic TZif file (v1/v2/v3) and every "
            "history replayed; every installed zone (independent TZif reader) is queried at every transition -1/0/+1 s, both ends and far "
            "beyond in three orders plus local->UTC and zone-range queries; dzone --next/--prev at and between the transitions of 40|400 zones "
            "(adjacent entry of the merged table, offsets on both sides); all events validated by ZoneTrace.tla",
            "installed zoneinfo = meaning of 'the zone file'; nothing judged before the first listed transition; quick tier samples a third "
            "of the zones (all extreme ones) and caps instants per zone", "5 C12"),
    "C14": ("model_checking", "TLA+ Leaps (table laws), Bisect (refinement, Progress, pinned loop refuted) and LeapCompile (the ltrcc passes emit the columns the list demands) model-checked; Bisect cases replayed on leaps_before_*; TLC-emitted lists compiled by the real ltrcc and the linked arrays validated by LeapCompileTrace; TAI/GPS/%rS/rs events validated by LeapsTrace",
            "Leaps.tla over the frozen table and Bisect.tla are model-checked; every Bisect state is replayed on the four leaps_before "
            "functions; TAI/GPS offsets at every entry +-2 s, yearly to 4094, at the 2^31/2^32 boundaries and seeded, real-second differences "
            "of ordered pairs in both orders (operands in ymd, ymcw and epoch notation) and real-second additions across every inserted second "
            "are validated by LeapsTrace.tla; the leap-list compiler: LeapCompile.tla model-checked for all lists of <= 4|5 lines, 400|5.4k "
            "emitted lists compiled by the tree's ltrcc, the shipped list and the linked arrays validated word by word by LeapCompileTrace.tla",
            "LeapTab.tla is a frozen copy of lib/leap-seconds.list; differences only for |d| < 2^31 s (beyond: known finding); operands equal to 23:59:60 not used", "5 C14"),
    "C11": ("model_checking", "TLA+ Clock (carry mechanism refines floor-division AddS; slot overflow refuted as control) model-checked; dt_dtadd/dt_dtdiff/%s/@N/24:00:00 replayed against chain arithmetic; tool events validated by ClockTrace",
            "Clock.tla is model-checked exhaustively with the day scaled to 6 s (every carry / negative remainder combination, |k| <= 10 days); "
            "dt_dtadd in s/m/h up to 2^31-1 s, dt_dtdiff(DT_DURS) incl. pairs > 68 years apart, epoch in/out and 24:00:00 are compared with "
            "<<chain day, second of day>> arithmetic in 5 notations; dadd/ddiff/dconv events are validated by ClockTrace.tla",
            "days are a stride + boundary windows, seconds-of-day and counts are enumerated boundary sets + seeded; known findings: epoch value 0, negative epoch on stdin, day-count tail", "5 C11"),
    "C13": ("model_checking", "TLA+ Tool (RunAll = concat RunOne; poisoning cache refuted), CycleTable (wrap; no-clear variant refuted), ZoneImpl model-checked; N-input runs vs N single runs validated by ToolTrace; strops histories vs libc",
            "the no-hidden-state law is model-checked for the cache mechanism (Tool.tla), the generation-counter table (CycleTable.tla, across wraps) and "
            "the zone lookup (ZoneImpl.tla); for every line-oriented tool/option set runs on N inputs are compared by ToolTrace.tla with N single-input "
            "runs, with inputs priming each state (permutations of zone-table ranges, 300 needle searches, mixed value kinds as stdin lines and as "
            "arguments, bad lines, durations); the exit status of the N-input run must be the maximum of the single statuses",
            "outputs are split along single-run lengths; N <= 6 per run (300 for the needle counter); zones: 25|200 files", "5 C13"),
    "C19": ("fault_enumeration", "TLA+ Loader (Safe/Exact; unchecked loader refuted) and TzMap (bisection refines Find, Progress) model-checked; every model state + every truncation/corruption replayed on zif_open/tzm_open/tzm_find under ASan; lookups validated by TzMapTrace",
            "fault enumeration driven by the models: all 60k|487k Loader states and every truncation length / header-count / version / type-index "
            "corruption of 6|9 seed zone files are opened by the real loader with the image in an exact-size heap block under ASan+bounds and then "
            "queried; every TzMap layout is compiled with tzmap cc and all present, neighbouring and absent keys looked up (TzMapTrace.tla), compiled "
            "maps are truncated and corrupted word by word",
            "memory safety is observed by the sanitizer (mmap redirected to an exact-size heap copy); counts in the model are 0..1", "5 C19"),
    "C15": ("model_checking", "TLA+ Seq state machine (safety + liveness <>done) model-checked; real dseq runs replayed event by event by SeqTrace (Emit enabled only for the next element, Stop only when none remains, Timeout never)",
            "Seq.tla (integer line with skips and --compute-from-last, month/year steps in one step with clamp, times around the clock) is "
            "model-checked for safety and termination (incl. --compute-from-last for dates, month steps and times, clamped elements on skipped weekdays); 350|64000 seeded and boundary invocations of the unmodified dseq are run under a timeout and "
            "their output validated line by line by SeqTrace.tla",
            "output lines are only re-encoded (date -> chain day, time -> second of day); FIRST = LAST for times is read as one full lap (the tool's "
            "reading); compound month+day increments are not judged", "5 C15"),
    "C16": ("model_checking", "TLA+ Round (constructive = declarative nearest-admissible-point, Idempotent, Strict; co-class) model-checked on a scaled calendar; real dround runs validated by RoundTrace (same rule on the Gregorian calendar) + idempotence re-runs",
            "Round.tla proves on a scaled calendar, for every value x target x direction x --next, that the documented constructive rule equals the "
            "declarative meaning and is idempotent / strict; RoundTrace.tla applies that rule on the real calendar to 37k|400k recorded dround runs "
            "(all weekday/month/day-of-month >= 28/co-class month, year, day specs + seeded hour/minute/second specs, chains of specs); every "
            "result is rounded again to check idempotence through the tool",
            "inputs are month ends, leap days and boundary windows x 6 times of day; results outside 1601..4095 are not judged", "5 C16"),
    "C17": ("model_checking", "TLA+ Expr (De Morgan push-down + evaluator refines Boolean Eval for all trees; pinned mechanism refuted) model-checked; every tree run through dgrep / dgrep -v under ASan and validated line by line by GrepTrace",
            "Expr.tla is model-checked over every tree of <= 3|4 leaves, 3 atoms, all negation placements and valuations; every emitted tree is "
            "printed in explicit and minimal parenthesisation with four atom sets (six operators, date and specifier operands) and run through "
            "the real dgrep and dgrep -v built with ASan+bounds; GrepTrace.tla accepts a run only if exactly the Eval-true lines come out, "
            "unchanged, in order, and the exit status shows no crash or sanitizer report",
            "'programs' are exhaustive up to the size bound (quick: a seeded quarter of the 7062 trees); atom truth values per line are computed by the orchestrator", "5 C17"),
    "C18": ("model_checking", "TLA+ Chunk (transcribed prchunk_fill under every read() schedule vs LinesOf) explored by TLC; every terminal state replayed on the real reader at model scale (guarded hook); real-scale tool runs under an LD_PRELOAD read-schedule shim validated by StreamTrace",
            "TLC explores every stream of <= 7|8 bytes under every way of cutting it into read() results (495k states); each terminal (stream, schedule) "
            "is replayed on the real prchunk.c compiled with W=6, L=3, K=2 and judged against LinesOf; the unmodified dconv/dadd/dround -S run on "
            "streams around 16384 lines, long lines, CRLF, missing final newline and > 16 MiB under several read schedules, compared line by line "
            "with single-line runs (StreamTrace.tla) and with each other",
            "terminator normalisation (CRLF->LF, final newline added) is not a violation; two known findings (window overflow, unterminated tail after a line-limit fill)", "5 C18"),
    "C05": ("model_checking", "TLA+ DateArith/Biz (meaning of applying a duration) model-checked; real ddiff on all ordered pairs of point sets x duration formats validated by DiffTrace (Apply(earlier, printed) = later, sign, antisymmetry)",
            "DiffTrace.tla applies dateadd's model-checked semantics (months/years in one step keeping the day, week/day index arithmetic, "
            "business days by counting, time with roll-over; year-week-day durations in the ISO week calendar) to the components the real "
            "ddiff printed for every ordered pair of 3|25 point sets (leap days, year ends, ISO 52/53 boundaries, +-70/+-800 days, far pairs) "
            "and 16 formats, and demands the flipped sign for the swapped operands",
            "pairs are sampled (29 fixed boundary days + seeded clusters), not all 10^11; month/year formats for dates with earlier day <= 28 (week <= 52) "
            "only; %db for pairs of business days; known finding: %Y %d", "5 C05"),
    "C06": ("model_checking", "TLA+ Duration (Split: Recombine, InRange, Plain) model-checked over all 31 unit subsets; integers printed by the real ddiff validated by DurationTrace incl. the single leading minus sign",
            "Duration.tla is model-checked over every subset of {w,d,H,M,S} and boundary totals; DurationTrace.tla applies Split to what ddiff "
            "printed for all ordered pairs of 2|12 clusters of date-times (incl. spans beyond 2^31 s: Split2, shown equal to Split, never forms the total in "
            "seconds; seconds-only output reaches TLC as <<div 86400, mod 86400>>) under every subset (thorough: both orders, zero padding); year/month "
            "specifiers: months < 12, one sign, and zero for date-times less than four weeks apart incl. identical ones",
            "totals as <<day diff, second diff>>; seconds-only formats for spans below 2^31 s; conservation of Y/m parts is C05", "5 C06"),
    "C20": ("model_checking", "TLA+ Locale (parse tables follow setilocale, print tables setflocale, over all setter sequences; cross-wired setters refuted) model-checked; setter sequences and locale-pair tool runs validated by LocaleTrace; self-composition over an environment/clock grid validated by EnvTrace; import audit",
            "Locale.tla is model-checked over every setter sequence; the real setilocale/setflocale are driven through seeded|all sequences of length <= 4 "
            "with all eight tables read back, and dconv/dadd/dround/dseq run on (6|all prefix-free) x (16|all) shipped locale pairs, with one or both options in "
            "both orders (LocaleTrace.tla); every invocation of a corpus (generated fully specified ones for all nine tools, underspecified ones with "
            "--base, the qualifying .ctst command lines) runs under 12|17 combinations of TZ, LANG, LC_ALL, LC_TIME and injected wall clocks and "
            "EnvTrace.tla accepts only if all runs agree in output and status; the binaries are audited to import no libc clock/locale conversions",
            "environment values are an enumerated grid, not all strings; only C/POSIX libc locales are installed, so the LANG/LC_* dimension rests on the "
            "import audit; the clock is injected by LD_PRELOAD", "5 C20"),
    "C09": ("model_checking", "TLA+ Format (specifier grammar as generator; Complete/Unamb2 scope; GuessAgrees/OneFamily against the transcribed calendar guess) model-checked; every emitted format replayed through dt_strfdt -> dt_strpdt on boundary values, held representations and shipped locales; library and dconv round trips validated by FormatTrace",
            "Format.tla enumerates every complete and unambiguous format of <= 3 tokens over all 43 date tokens, <= 4 tokens over 20 (ymcw forms), <= 5 time "
            "tokens and <= 4|6 date-time tokens with 3|6 separators incl. adjacency (72k|360k formats) and checks that the parser's calendar choice agrees "
            "with the family the fields determine; each format is replayed on the library with 80|260 dates (new-year windows of all 14 year types, leap "
            "days, every month, far years), 10 clock times and ns patterns, every 5th|every format also with the value held as ymcw/ywd/yd/daisy/bizda, name "
            "tokens under 6|all prefix-free shipped locales; default outputs of the five calendars through the format-less parser; samples and dconv -f/-i "
            "round trips (argument and whole-line stdin) are validated by FormatTrace.tla, which re-evaluates the scope on the recorded tokens; Needle.tla "
            "(the line scanner's offset windows: Covers over 123k formats, two refuted variants) is bound to calc_grep_atom by NeedleTrace.tla and by values "
            "embedded in lines through dconv -S",
            "formats are exhaustive up to the token bound, values are an enumerated boundary set; scope reading: one calendar family's fields (no quarter, %G only "
            "with %V), 2-/1-digit years inside the window around --base; known finding: %dB", "5 C09"),
    "C10": ("exploration", "TLA+ Lex (tokeniser transcribed over byte classes: TokSafe/Progress; pinned default branch refuted) and Buf (write discipline: Within; unguarded writers refuted) and Unescape (in-place escape rewriting) model-checked; every model string / (format, buffer size) replayed on the real tokeniser, parsers, formatters and tools under ASan+bounds with exact-size heap blocks; events validated by SafeTrace (tokeniser conformance with Lex, end pointers, return lengths)",
            "the sanitizer supplies the decisive observation, the models the exhaustive small-scope input structure: all 30k|400k byte-class strings of <= 4|5 "
            "positions (13 classes) are concretised and used as format and as text on the __tok_spec loop, dt_strpdt/strpd/strpt/strpdtdur, "
            "dt_strfdt/strfd/strft/strfdtdur with buffers of 1..32 bytes; every (format, bsz) of Buf and all pairs of 56 real tokens x bsz 1..23; runs of "
            "15..5000 identical bytes; 10 tools with the strings as value, -f, -i, stdin line, duration, expression, round spec, increment, zone name, escaped "
            "format, every modifier x specifier letter alone and at the 254/250-byte edge, formats of 246..258 bytes ending in a specifier, streams around the "
            "16384-line chunk limit; SafeTrace.tla demands the token count and end offset Lex.tla computes for every string; "
            "the text of every real token cut at every position and parsed from an exact-size block; the in-place escape processor of -e "
            "is Unescape.tla (Safe, NoNul, Meaning, Finishes; off-by-one table bound refuted), the real dt_io_unescape on 4.7k|37k model strings + 4k|31k byte strings validated by UnescapeTrace.tla",
            "no proof of memory safety: ASan/UBSan-bounds on the explored inputs; C strings without embedded NUL; assertion failures count as violations", "5 C10"),
}
NOT_APPLICABLE = []


def main():
    props = [json.loads(l)["id"] for l in open(os.path.join(V, "properties.jsonl"))]
    checks = []
    for pid in props:
        if pid not in CHECKS:
            continue
        cat, tech, text, note, ref = CHECKS[pid]
        checks.append({
            "property_id": pid,
            "quick_cmd": "bin/check %s --tier quick" % pid,
            "thorough_cmd": "bin/check %s --tier thorough" % pid,
            "evidence_file": "/verif/evidence/%s.json" % pid,
            "replay_cmd_template": "bin/check %s --replay {path}" % pid,
            "engine": "tlc+drivers",
            "level_claimed": {"category": cat, "text": text, "design_ref": "DESIGN.md section " + ref},
            "level_note": note,
            "technique": tech,
        })
    claimed = {c["property_id"] for c in checks}
    na = [x for x in NOT_APPLICABLE if x["property_id"] not in claimed]
    for pid in props:
        if pid not in claimed and pid not in {x["property_id"] for x in na}:
            na.append({"property_id": pid, "reason": "check not built yet (work in progress; see DESIGN.md section 5)"})
    man = {
        "version": 1,
        "setup_cmd": "bin/setup",
        "hooks": {
            "guard": "DATEUTILS_VERIF",
            "enable": "checks copy /repo's working tree to a scratch directory and build it with make CFLAGS='... -DDATEUTILS_VERIF'",
            "baseline_off_cmd": "make -C /repo -k check",
            "source_commits": HOOK_COMMITS,
            "add_only": True,
        },
        "engines": [
            {"name": "tlc+drivers", "path": "/verif/bin/check",
             "serves_properties": sorted(claimed),
             "kind_free_text": "TLA+ specifications in /verif/spec model-checked by TLC; behaviours emitted by TLC are replayed into the real "
                               "code by C drivers in /verif/drivers (direction A) and events recorded from the real library / tools are "
                               "validated by *Trace.tla specifications (direction B)"}],
        "checks": checks,
        "not_applicable": na,
        "notes": "exit 0 = held (KNOWN-FINDING lines allowed), 1 = VIOLATION, 2 = machinery/model failure. Known findings: /verif/known-findings.txt",
    }
    json.dump(man, open(os.path.join(V, "MANIFEST.json"), "w"), indent=1)
    # validate
    code = r'''
import json, sys, glob, jsonschema
m = json.load(open("/verif/MANIFEST.json"))
jsonschema.validate(m, json.load(open("/root/.vp/MANIFEST.schema.json")))
es = json.load(open("/root/.vp/EVIDENCE.schema.json"))
for f in sorted(glob.glob("/verif/evidence/*.json")):
    jsonschema.validate(json.load(open(f)), es)
    print("evidence ok", f)
print("manifest ok", len(m["checks"]), "checks", len(m.get("not_applicable", [])), "n/a")
'''
    subprocess.run(["python3-vt", "-c", code], check=True)


HOOK_COMMITS = ["db8411f verif hook: model-scale constants for the chunk reader (src/prchunk.c, guarded by DATEUTILS_VERIF + VERIF_PRCH_NLINES/_LLEN/_CHUNK)"]
if __name__ == "__main__":
    main()
