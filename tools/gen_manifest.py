#!/usr/bin/env python3
"""regenerates /verif/MANIFEST.json from the table below and validates it (and any evidence files) against the schemas"""
import json, os, sys, subprocess

V = "/verif"
CHECKS = {
    # id: (category, technique, level text, level note, design_ref)
    "C01": ("model_checking", "TLA+ Calendar chain model-checked by TLC, replayed into libdut (all days) + trace validation of library/dconv events",
            "Calendar.tla is checked exhaustively by TLC (917,933 states, closed-form invariants + anchors); its emitted behaviour is "
            "replayed into the real library for every one of the 911,280 days x 9 source notations x 8 targets x 44 specifiers "
            "(exhaustive on the property's domain), and recorded library / dconv events are validated by CalendarTrace.tla",
            "trusts TLC, the Calendar/Greg modules (two formulations + anchors, self-tested against CPython datetime), gcc; "
            "%w on Sundays accepts 00 and 07; Lilian day 0 = 1582-10-15 as documented; bizda only as a source", "5 C01"),
}
NOT_APPLICABLE = []


def main():
    props = [json.loads(l)["id"] for l in open(os.path.join(V, "properties.jsonl"))]
    checks = []
    for pid in props:
        if pid not in CHECKS:
            continue
        cat, tech, text, note, ref = CHECKS[pid]
        checks.append({
            "property_id": pid,
            "quick_cmd": "bin/check %s --tier quick" % pid,
            "thorough_cmd": "bin/check %s --tier thorough" % pid,
            "evidence_file": "/verif/evidence/%s.json" % pid,
            "replay_cmd_template": "bin/check %s --replay {path}" % pid,
            "engine": "tlc+drivers",
            "level_claimed": {"category": cat, "text": text, "design_ref": "DESIGN.md section " + ref},
            "level_note": note,
            "technique": tech,
        })
    claimed = {c["property_id"] for c in checks}
    na = [x for x in NOT_APPLICABLE if x["property_id"] not in claimed]
    for pid in props:
        if pid not in claimed and pid not in {x["property_id"] for x in na}:
            na.append({"property_id": pid, "reason": "check not built yet (work in progress; see DESIGN.md section 5)"})
    man = {
        "version": 1,
        "setup_cmd": "bin/setup",
        "hooks": {
            "guard": "DATEUTILS_VERIF",
            "enable": "checks copy /repo's working tree to a scratch directory and build it with make CFLAGS='... -DDATEUTILS_VERIF'",
            "baseline_off_cmd": "make -C /repo -k check",
            "source_commits": HOOK_COMMITS,
            "add_only": True,
        },
        "engines": [
            {"name": "tlc+drivers", "path": "/verif/bin/check",
             "serves_properties": sorted(claimed),
             "kind_free_text": "TLA+ specifications in /verif/spec model-checked by TLC; behaviours emitted by TLC are replayed into the real "
                               "code by C drivers in /verif/drivers (direction A) and events recorded from the real library / tools are "
                               "validated by *Trace.tla specifications (direction B)"}],
        "checks": checks,
        "not_applicable": na,
        "notes": "exit 0 = held (KNOWN-FINDING lines allowed), 1 = VIOLATION, 2 = machinery/model failure. Known findings: /verif/known-findings.txt",
    }
    json.dump(man, open(os.path.join(V, "MANIFEST.json"), "w"), indent=1)
    # validate
    code = r'''
import json, sys, glob, jsonschema
m = json.load(open("/verif/MANIFEST.json"))
jsonschema.validate(m, json.load(open("/root/.vp/MANIFEST.schema.json")))
es = json.load(open("/root/.vp/EVIDENCE.schema.json"))
for f in sorted(glob.glob("/verif/evidence/*.json")):
    jsonschema.validate(json.load(open(f)), es)
    print("evidence ok", f)
print("manifest ok", len(m["checks"]), "checks", len(m.get("not_applicable", [])), "n/a")
'''
    subprocess.run(["python3-vt", "-c", code], check=True)


HOOK_COMMITS = []
if __name__ == "__main__":
    main()
