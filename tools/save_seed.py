#!/usr/bin/env python3
"""tools/save_seed.py ID SRC_DIR PROPERTY 'needs' 'detected by' -- keep a confirmed seeded change under /verif/seeded/ID"""
import sys, os, shutil, json, subprocess
sid, src, prop, needs, detected = sys.argv[1:6]
dst = "/verif/seeded/" + sid
os.makedirs(dst, exist_ok=True)
for f in ("patch.diff", "demo.sh", "notes.md", "confirm.txt"):
    if os.path.exists(os.path.join(src, f)):
        shutil.copy(os.path.join(src, f), os.path.join(dst, f))
conf = open(os.path.join(dst, "confirm.txt")).read() if os.path.exists(os.path.join(dst, "confirm.txt")) else ""
meta = {"id": sid, "property": prop, "needs_to_manifest": needs,
        "base_commit": subprocess.run(["git", "-C", "/repo", "rev-parse", "--short", "HEAD"], capture_output=True, text=True).stdout.strip(),
        "confirmed": {"how": "tools/confirm_seed.sh in a fresh scratch worktree: patch applies, builds, make -k check passes, "
                             "demo.sh exits 0 without and 1 with the change", "log": conf},
        "detection": detected,
        "how_run": "git -C /repo apply seeded/%s/patch.diff; bin/check %s --tier quick; git -C /repo checkout -- ." % (sid, prop)}
json.dump(meta, open(os.path.join(dst, "meta.json"), "w"), indent=1)
print("saved", dst)
