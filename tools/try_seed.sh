#!/bin/sh
# tools/try_seed.sh PATCH PROP [PROP...] -- run the quick checks against a seeded change WITHOUT touching /repo: the patch is
# applied in a scratch worktree of /repo's HEAD (kept under /var/tmp/verif-seedtry, removed with `tools/try_seed.sh --clean`)
# and the checks are pointed at it through VERIF_REPO
WT=/var/tmp/verif-seedtry
if [ "$1" = "--clean" ]; then git -C /repo worktree remove --force $WT 2>/dev/null; git -C /repo worktree prune; exit 0; fi
P="$1"; shift
cd /verif
if [ ! -d $WT ]; then tools/mkworktree.sh $WT >/dev/null 2>&1 || exit 3; fi
git -C $WT checkout -q -- . && git -C $WT checkout -q --detach "$(git -C /repo rev-parse HEAD)" || exit 3
git -C $WT apply "$P" || { echo "patch does not apply: $P"; exit 3; }
for c in "$@"; do
  VERIF_EVIDENCE_DIR=/var/tmp/verif-seed-evidence VERIF_REPO=$WT timeout 1800 bin/check "$c" --tier quick > /var/tmp/try_$c.log 2>&1; rc=$?
  echo "== $c rc=$rc: $(grep -c '^VIOLATION' /var/tmp/try_$c.log) violation keys"; grep "key=" /var/tmp/try_$c.log | cut -c1-220 | head -4
done
git -C $WT checkout -q -- .
