#!/bin/sh
# tools/try_seed.sh PATCH PROP [PROP...] -- apply a seeded change to /repo, run the quick checks, undo it
P="$1"; shift
cd /verif
git -C /repo apply "$P" || { echo "patch does not apply: $P"; exit 3; }
for c in "$@"; do
  timeout 1500 bin/check "$c" --tier quick > /var/tmp/try_$c.log 2>&1; rc=$?
  echo "== $c rc=$rc: $(grep -c '^VIOLATION' /var/tmp/try_$c.log) violation keys"; grep "key=" /var/tmp/try_$c.log | cut -c1-220 | head -4
done
git -C /repo checkout -- .
git -C /repo status --short | grep -v '^??'
