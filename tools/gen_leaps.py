#!/usr/bin/env python3
"""freeze lib/leap-seconds.list into spec/LeapTab.tla: <<unix day from which the value is in force, TAI-UTC>>"""
import sys
src = sys.argv[1] if len(sys.argv) > 1 else "/repo/lib/leap-seconds.list"
rows = []
for l in open(src):
    if l.startswith("#") or not l.strip():
        continue
    p = l.split()
    ntp, off = int(p[0]), int(p[1])
    ux = ntp - 2208988800
    assert ux % 86400 == 0
    rows.append((ux // 86400, off))
assert all(a[0] < b[0] and b[1] == a[1] + 1 for a, b in zip(rows, rows[1:]))
out = ["---------------------------- MODULE LeapTab ----------------------------",
       "(* frozen copy of lib/leap-seconds.list of the pinned tree: <<Unix day d, TAI-UTC in force from d 00:00:00 UTC on>>;",
       "   the leap second itself is the second 23:59:60 of day d-1 *)",
       "LEAPS == <<"]
out.append(",\n".join("  <<%d, %d>>" % r for r in rows))
out.append(">>")
out.append("=============================================================================")
open(sys.argv[2] if len(sys.argv) > 2 else "/verif/spec/LeapTab.tla", "w").write("\n".join(out) + "\n")
print(len(rows), rows[0], rows[-1])
