#!/usr/bin/env python3
"""dev: build /repo, run drv_cal MODE sharded over all (or given) days, print failing keys"""
import sys, json
sys.path.insert(0, "/verif")
from vlib import core, chain, caldrv
mode = sys.argv[1]
lo = int(sys.argv[2]) if len(sys.argv) > 2 else chain.LDN_1601
hi = int(sys.argv[3]) if len(sys.argv) > 3 else chain.LDN_LAST
step = int(sys.argv[4]) if len(sys.argv) > 4 else 1
args = sys.argv[5:]
b = core.Build("plain")
drv = b.driver("drv_cal", link_lib=True)
ch = chain.Chain()
import time
t = time.time()
m = caldrv.run_sharded(drv, ch.path, mode, lo, hi, step, args)
print("driver %.1fs, evaluations %d, keys %d" % (time.time() - t, sum(v["n"] for v in m.values()), len(m)))
for k, v in sorted(m.items()):
    if v["bad"] and not caldrv.tail_collapse(k, v):
        print(k, v["n"], v["bad"], ch.fmtF(v["min"]), ch.fmtF(v["max"]), v["s"][:2])
if "--suite" in sys.argv:
    p = core.run(["make", "-k", "check"], cwd=b.root, timeout=1200)
    print([l for l in p.stdout.splitlines() if l.startswith(("# ", "FAIL"))])
b.close()
