#!/usr/bin/env python3
"""development helper: keep a persistent scratch build + driver for interactive experiments"""
import sys, os
sys.path.insert(0, "/verif")
from vlib import core
core._scratch_dirs.clear
b = core.Build(sys.argv[1] if len(sys.argv) > 1 else "plain")
core._scratch_dirs.remove(b.dir)
for d in sys.argv[2:]:
    print(b.driver(d, link_lib=True))
print(b.dir)
