#!/bin/sh
# tools/mkworktree.sh DIR -- scratch git worktree of /repo (HEAD) for seeded-change sub-agents,
# completed with the untracked autotools output so that it builds offline (make; make -k check)
set -e
D="$1"
git -C /repo worktree add --detach "$D" HEAD >/dev/null 2>&1
rsync -a --ignore-existing --exclude .git --exclude '*.o' --exclude '*.a' --exclude '*.log' --exclude '*.trs' /repo/ "$D"/
# drop copied executables so everything is rebuilt from the worktree's sources
for f in "$D"/src/* "$D"/lib/* "$D"/test/*; do
  [ -f "$f" ] && [ -x "$f" ] && head -c4 "$f" | grep -q ELF && rm -f "$f"
done
# git wrote the tracked sources with fresh mtimes: make the generated autotools files look newer again
( cd "$D" && touch aclocal.m4 && touch configure src/config.h.in && find . -name Makefile.in | xargs touch && touch config.status && find . -name Makefile | xargs touch && touch src/config.h src/stamp-h1 2>/dev/null; true )
( cd "$D" && make -j8 >/dev/null 2>&1 ) || echo "warning: initial build failed in $D"
echo "$D ready"
