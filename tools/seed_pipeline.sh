#!/bin/sh
# tools/seed_pipeline.sh ID SRC_DIR PROP -- confirm a sub-agent's change in a fresh worktree (tools/confirm_seed.sh), then run PROP's quick
# check against it in a worktree of its own (parallel-safe: one worktree and one log per ID).  Result line in SRC_DIR/pipeline.txt
ID="$1"; SRC="$2"; PROP="$3"; WT=/var/tmp/verif-seedtry-$ID
cd /verif
grep -q "demo on changed build: exit 1" "$SRC/confirm.txt" 2>/dev/null || tools/confirm_seed.sh "$ID" "$SRC" > /dev/null 2>&1
rm -rf $WT; git -C /repo worktree prune; tools/mkworktree.sh $WT >/dev/null 2>&1 || { echo "worktree failed" > "$SRC/pipeline.txt"; exit 3; }
git -C $WT apply "$SRC/patch.diff" || { echo "patch does not apply" > "$SRC/pipeline.txt"; exit 3; }
VERIF_EVIDENCE_DIR=/var/tmp/verif-seed-evidence VERIF_REPO=$WT timeout 2400 bin/check "$PROP" --tier quick > "$SRC/check.log" 2>&1; rc=$?
{ echo "check $PROP rc=$rc violations=$(grep -c '^VIOLATION' "$SRC/check.log")"; grep "key=" "$SRC/check.log" | cut -c1-240 | head -5; } > "$SRC/pipeline.txt"
git -C /repo worktree remove --force $WT
cat "$SRC/pipeline.txt"
