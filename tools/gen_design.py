#!/usr/bin/env python3
"""assembles /verif/DESIGN.md from tools/design/head.md + tail.md, filling the seed table (seeded/*/meta.json) and the
status table (evidence/*.json, MANIFEST.json)"""
import json, glob, os
V = "/verif"
head = open(V + "/tools/design/head.md").read()
tail = open(V + "/tools/design/tail.md").read()
rows = ["| seeded change | property | needs, to manifest | caught by |", "|---|---|---|---|"]
n = 0
for d in sorted(glob.glob(V + "/seeded/*")):
    j = json.load(open(d + "/meta.json"))
    rows.append("| `%s` | %s | %s | %s |" % (os.path.basename(d), j["property"], j["needs_to_manifest"].replace("|", "/")[:170], j["detection"].replace("|", "/")[:200]))
    n += 1
tail = tail.replace("SEEDTABLE", "\n".join(rows))
man = json.load(open(V + "/MANIFEST.json"))
lv = {c["property_id"]: c["level_claimed"]["category"] for c in man["checks"]}
known = {}
for line in open(V + "/known-findings.txt"):
    if line.startswith("finding:"):
        pid = line.split("property=")[1].split()[0]
        known[pid] = known.get(pid, 0) + 1
st = []
for pid in sorted(lv):
    p = V + "/evidence/%s.json" % pid
    if not os.path.exists(p):
        st.append("| %s | %s | - | no evidence yet |" % (pid, lv[pid]))
        continue
    e = json.load(open(p))
    cov = e.get("coverage", {})
    viol = e.get("violations", 0)
    viol = len(viol) if isinstance(viol, list) else viol
    res = "holds on everything explored" if not known.get(pid) else "holds apart from %d known finding key%s" % (known[pid], "s" if known[pid] > 1 else "")
    if viol:
        res = "VIOLATIONS: %s" % viol
    st.append("| %s | %s | %s s (%s) | %s; %s evaluations, %s TLC states, %s traces |" % (pid, lv[pid], int(e.get("wall_s", 0)), e.get("tier"), res,
              cov.get("evaluations"), cov.get("states"), cov.get("traces_validated_against_impl")))
tail = tail.replace("STATUSTABLE", "\n".join(st))
head = head.replace("32 seeded breaking changes", "%d seeded breaking changes" % n)
import subprocess
nfix = subprocess.run("git -C /repo log --oneline | grep -c ' fix:'", shell=True, capture_output=True, text=True).stdout.strip()
nfind = sum(known.values())
mods = glob.glob(V + "/spec/*.tla")
nlines = sum(len(open(m).read().split("\n")) for m in mods)
for k, v in (("NFIX", nfix), ("NFIND", str(nfind)), ("NMOD", str(len(mods))), ("NLINES", str(nlines)), ("NCFG", str(len(glob.glob(V + "/spec/*.cfg"))))):
    head = head.replace(k, v)
    tail = tail.replace(k, v)
open(V + "/DESIGN.md", "w").write(head + tail)
print("DESIGN.md written:", len((head + tail).split("\n")), "lines,", n, "seeds")
