#!/bin/sh
# tools/confirm_seed.sh ID [SRC_DIR] -- confirm a seeded change independently in a fresh scratch worktree:
# applies, compiles, passes the existing suite, demo exits 1 with the change and 0 without.  Writes /tmp/seed/ID/confirm.txt
ID="$1"; SRC="${2:-/tmp/seed/$ID}"; WT=/tmp/confirmwt/$ID
mkdir -p /tmp/confirmwt; rm -rf "$WT"; git -C /repo worktree prune
/verif/tools/mkworktree.sh "$WT" >/dev/null 2>&1
OUT="$SRC/confirm.txt"; : > "$OUT"
cd "$WT" || exit 3
echo "base commit: $(git rev-parse --short HEAD)" >> "$OUT"
sh "$SRC/demo.sh" "$WT" >/dev/null 2>&1; echo "demo on unchanged build: exit $?" >> "$OUT"
if git apply "$SRC/patch.diff" 2>>"$OUT"; then echo "patch applies: yes" >> "$OUT"; else echo "patch applies: NO" >> "$OUT"; fi
if make -j8 >/dev/null 2>&1; then echo "build: ok" >> "$OUT"; else echo "build: FAILED" >> "$OUT"; fi
make -k check 2>&1 | grep -E "^# (TOTAL|PASS|FAIL|ERROR)" | tr '\n' ' ' >> "$OUT"; echo >> "$OUT"
sh "$SRC/demo.sh" "$WT" >/dev/null 2>&1; echo "demo on changed build: exit $?" >> "$OUT"
cd /; git -C /repo worktree remove --force "$WT"
cat "$OUT"
