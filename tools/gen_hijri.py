#!/usr/bin/env python3
"""freeze data/ummulqura.tab (month-begin Lilian day numbers) into spec/HijriTab.tla"""
import re, sys
src = sys.argv[1] if len(sys.argv) > 1 else "/repo/data/ummulqura.tab"
txt = open(src).read()
base = int(re.search(r"UMMULQURA_BASE\s+\((\d+)\)", txt).group(1))
rows = re.findall(r"\[(\d+) - UMMULQURA_BASE\] = \{([^}]*)\}", txt)
flat = []
for i, (y, vals) in enumerate(rows):
    assert int(y) == base + i
    v = [int(x.strip().rstrip("U")) for x in vals.split(",")]
    assert len(v) == 12
    flat += v
assert all(a < b for a, b in zip(flat, flat[1:]))
out = ["---------------------------- MODULE HijriTab ----------------------------",
       "(* frozen copy of data/ummulqura.tab of the pinned tree: Lilian day number of the",
       "   first day of every Umm-al-Qura month, month index k = (hy - HBASE) * 12 + hm (1-based) *)",
       "HBASE == %d" % base,
       "HNMON == %d" % len(flat),
       "HBOM == <<"]
for i in range(0, len(flat), 12):
    out.append("  " + ", ".join(map(str, flat[i:i+12])) + ("," if i + 12 < len(flat) else ""))
out.append(">>")
out.append("=============================================================================")
open(sys.argv[2] if len(sys.argv) > 2 else "/verif/spec/HijriTab.tla", "w").write("\n".join(out) + "\n")
print(base, len(flat), flat[0], flat[-1])
