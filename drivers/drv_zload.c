/* drv_zload -- zif_open() and lookups on arbitrary file content with the file image in an exact-size heap block, so
 * that the sanitizer build sees every access outside the image (mmap is redirected to malloc+pread).
 * Commands as drv_zone: O <path>, L <t>, R <t>, C.  A sanitizer report kills the process (exit 99). */
#if defined HAVE_CONFIG_H
# include "config.h"
#endif
#include <stdio.h>
#include <stdlib.h>
#include <string.h>
#include <stdint.h>
#include <inttypes.h>
#include <unistd.h>
#include <sys/mman.h>
#include <sys/stat.h>
#include <fcntl.h>

static void *vmmap(void *a, size_t len, int prot, int flags, int fd, off_t off)
{
	unsigned char *p = malloc(len ? len : 1);
	(void)a, (void)prot, (void)flags, (void)off;
	if (p == NULL) return MAP_FAILED;
	if (len && pread(fd, p, len, 0) != (ssize_t)len) { free(p); return MAP_FAILED; }
	return p;
}
static int vmunmap(void *p, size_t len) { (void)len; free(p); return 0; }
#define mmap vmmap
#define munmap vmunmap
#include "leaps.c"
#include "tzraw.c"
#undef mmap
#undef munmap

int main(void)
{
	char line[4200];
	zif_t z = NULL;
	setvbuf(stdout, NULL, _IOLBF, 0);
	while (fgets(line, sizeof line, stdin)) {
		size_t n = strlen(line);
		while (n && (line[n - 1] == '\n' || line[n - 1] == '\r')) line[--n] = 0;
		switch (line[0]) {
		case 'O':
			if (z) { zif_close(z); z = NULL; }
			z = zif_open(line + 2);
			printf("{\"e\":\"Open\",\"ok\":%d,\"ntr\":%zu,\"nty\":%zu}\n", z != NULL, z ? z->ntr : (size_t)0, z ? z->nty : (size_t)0);
			break;
		case 'C':
			if (z) { zif_close(z); z = NULL; }
			printf("{\"e\":\"Close\"}\n");
			break;
		case 'L': {
			int64_t t = strtoll(line + 2, NULL, 10);
			int64_t r = z ? zif_local_time(z, t) : t;
			printf("{\"e\":\"Local\",\"t\":\"%" PRIi64 "\",\"r\":\"%" PRIi64 "\"}\n", t, r);
			break;
		}
		case 'R': {
			int64_t t = strtoll(line + 2, NULL, 10);
			struct zrng_s r = {0};
			if (z) r = zif_find_zrng(z, t);
			printf("{\"e\":\"Rng\",\"prev\":\"%" PRIi64 "\",\"next\":\"%" PRIi64 "\",\"offs\":%d}\n", (int64_t)r.prev, (int64_t)r.next, (int)r.offs);
			break;
		}
		default:
			printf("{\"e\":\"?\"}\n");
		}
	}
	return 0;
}
