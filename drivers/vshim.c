/* libvshim.so -- LD_PRELOAD shim for the unmodified tools:
 *   VERIF_READ_SCHED=n1,n2,...   read() on fd 0 returns at most n_i bytes on the i-th call (the list is cycled)
 *   VERIF_FAKE_NOW=<epoch secs>  time(), gettimeofday(), clock_gettime(CLOCK_REALTIME) answer this instant */
#define _GNU_SOURCE
#include <dlfcn.h>
#include <stdlib.h>
#include <string.h>
#include <unistd.h>
#include <time.h>
#include <sys/time.h>

static int sched[512], nsched = -1, si;
static long long fake_now = -1;
static int inited;

static void init(void)
{
	const char *s;
	if (inited) return;
	inited = 1;
	nsched = 0;
	if ((s = getenv("VERIF_READ_SCHED")) != NULL) {
		char *d = strdup(s);
		for (char *p = strtok(d, ","); p && nsched < 512; p = strtok(NULL, ",")) {
			int v = atoi(p);
			if (v > 0) sched[nsched++] = v;
		}
		free(d);
	}
	if ((s = getenv("VERIF_FAKE_NOW")) != NULL) fake_now = atoll(s);
}

ssize_t read(int fd, void *buf, size_t n)
{
	static ssize_t (*real)(int, void*, size_t);
	if (!real) real = (ssize_t(*)(int, void*, size_t))dlsym(RTLD_NEXT, "read");
	init();
	if (fd == 0 && nsched > 0 && n > 0) {
		size_t lim = (size_t)sched[si++ % nsched];
		if (lim < n) n = lim;
	}
	return real(fd, buf, n);
}

time_t time(time_t *t)
{
	static time_t (*real)(time_t*);
	init();
	if (fake_now >= 0) {
		if (t) *t = (time_t)fake_now;
		return (time_t)fake_now;
	}
	if (!real) real = (time_t(*)(time_t*))dlsym(RTLD_NEXT, "time");
	return real(t);
}

int gettimeofday(struct timeval *tv, void *tz)
{
	static int (*real)(struct timeval*, void*);
	init();
	if (fake_now >= 0) {
		if (tv) { tv->tv_sec = (time_t)fake_now; tv->tv_usec = 0; }
		return 0;
	}
	if (!real) real = (int(*)(struct timeval*, void*))dlsym(RTLD_NEXT, "gettimeofday");
	return real(tv, tz);
}

int clock_gettime(clockid_t c, struct timespec *ts)
{
	static int (*real)(clockid_t, struct timespec*);
	init();
	if (fake_now >= 0 && c == CLOCK_REALTIME) {
		if (ts) { ts->tv_sec = (time_t)fake_now; ts->tv_nsec = 0; }
		return 0;
	}
	if (!real) real = (int(*)(clockid_t, struct timespec*))dlsym(RTLD_NEXT, "clock_gettime");
	return real(c, ts);
}
