/* drv_zone -- drives the real zone code (lib/tzraw.c via libdut.a, public API) and the leap second
 * tables; one command per stdin line, one ndjson event per command on stdout (flushed, so that a hang
 * is attributable to the last command echoed by the orchestrator).
 *   O <path>     zif_open               -> {"e":"Open","ok":0|1,"ntr":N}
 *   C            zif_close + forget
 *   L <t>        zif_local_time(z, t)   -> {"e":"Local","t":"..","r":".."}       (64 bit values as strings)
 *   U <l>        zif_utc_time(z, l)     -> {"e":"Utc","l":"..","u":".."}
 *   R <t>        zif_find_zrng(z, t)    -> {"e":"Rng","t":"..","prev":"..","next":"..","offs":N,"trno":N}
 *   T <n>        zif_troffs(z, n)
 *   B32|B64 <key>  leaps_before_si32/si64 on the built-in leaps_s table -> index
 */
#if defined HAVE_CONFIG_H
# include "config.h"
#endif
#include <stdio.h>
#include <stdlib.h>
#include <string.h>
#include <stdint.h>
#include <inttypes.h>
#include "tzraw.h"
#include "leaps.h"

int main(void)
{
	char line[4200];
	zif_t z = NULL;

	setvbuf(stdout, NULL, _IOLBF, 0);
	while (fgets(line, sizeof line, stdin)) {
		size_t n = strlen(line);
		while (n && (line[n - 1] == '\n' || line[n - 1] == '\r')) line[--n] = 0;
		switch (line[0]) {
		case 'O':
			if (z) { zif_close(z); z = NULL; }
			z = zif_open(line + 2);
			printf("{\"e\":\"Open\",\"ok\":%d,\"ntr\":%zu}\n", z != NULL, z ? zif_ntrans(z) : (size_t)0);
			break;
		case 'C':
			if (z) { zif_close(z); z = NULL; }
			printf("{\"e\":\"Close\"}\n");
			break;
		case 'L': {
			int64_t t = strtoll(line + 2, NULL, 10);
			int64_t r = z ? zif_local_time(z, t) : t;
			printf("{\"e\":\"Local\",\"t\":\"%" PRIi64 "\",\"r\":\"%" PRIi64 "\"}\n", t, r);
			break;
		}
		case 'U': {
			int64_t l = strtoll(line + 2, NULL, 10);
			int64_t u = z ? zif_utc_time(z, l) : l;
			printf("{\"e\":\"Utc\",\"l\":\"%" PRIi64 "\",\"u\":\"%" PRIi64 "\"}\n", l, u);
			break;
		}
		case 'R': {
			int64_t t = strtoll(line + 2, NULL, 10);
			struct zrng_s r = {0};
			if (z) r = zif_find_zrng(z, t);
			printf("{\"e\":\"Rng\",\"t\":\"%" PRIi64 "\",\"prev\":\"%" PRIi64 "\",\"next\":\"%" PRIi64 "\",\"offs\":%d,\"trno\":%u}\n",
			       t, (int64_t)r.prev, (int64_t)r.next, (int)r.offs, (unsigned)r.trno);
			break;
		}
		case 'T': {
			int k = atoi(line + 2);
			printf("{\"e\":\"Troffs\",\"n\":%d,\"r\":%d}\n", k, z ? zif_troffs(z, k) : 0);
			break;
		}
		case 'B': {
			/* B <kind> <n> v1 .. vn key : leaps_before_<kind> on an explicit table */
			char kind[8];
			int n, off = 0, k;
			long long v[64], key;
			if (sscanf(line + 2, "%7s %d%n", kind, &n, &k) < 2 || n < 1 || n > 64) { printf("{\"e\":\"?\"}\n"); break; }
			off = 2 + k;
			for (int q = 0; q < n; q++) { sscanf(line + off, "%lld%n", &v[q], &k); off += k; }
			sscanf(line + off, "%lld", &key);
			zidx_t r;
			if (!strcmp(kind, "si32")) { int32_t a[64]; for (int q = 0; q < n; q++) a[q] = (int32_t)v[q]; r = leaps_before_si32(a, n, (int32_t)key); }
			else if (!strcmp(kind, "ui32")) { uint32_t a[64]; for (int q = 0; q < n; q++) a[q] = (uint32_t)v[q]; r = leaps_before_ui32(a, n, (uint32_t)key); }
			else if (!strcmp(kind, "si64")) { int64_t a[64]; for (int q = 0; q < n; q++) a[q] = (int64_t)v[q]; r = leaps_before_si64(a, n, (int64_t)key); }
			else { uint64_t a[64]; for (int q = 0; q < n; q++) a[q] = (uint64_t)v[q]; r = leaps_before_ui64(a, n, (uint64_t)key); }
			printf("{\"e\":\"Before\",\"idx\":%d}\n", (int)r);
			break;
		}
		default:
			printf("{\"e\":\"?\"}\n");
		}
	}
	return 0;
}
