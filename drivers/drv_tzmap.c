/* drv_tzmap -- tzm_open()/tzm_find() on arbitrary file content with the map image in an exact-size heap block
 * (mmap redirected to malloc+pread) so that the sanitizer build sees every access outside the image.
 *   O <path>   -> {"e":"Open","ok":0|1}
 *   F <key>    -> {"e":"Find","r":"zone"|null}
 *   C */
#if defined HAVE_CONFIG_H
# include "config.h"
#endif
#include <stdio.h>
#include <stdlib.h>
#include <string.h>
#include <stdint.h>
#include <unistd.h>
#include <sys/mman.h>
#include <sys/stat.h>
#include <fcntl.h>

static size_t cur_len;
static void *vmmap(void *a, size_t len, int prot, int flags, int fd, off_t off)
{
	unsigned char *p = malloc(len ? len : 1);
	(void)a, (void)prot, (void)flags, (void)off;
	if (p == NULL) return MAP_FAILED;
	if (len && pread(fd, p, len, 0) != (ssize_t)len) { free(p); return MAP_FAILED; }
	cur_len = len;
	return p;
}
static int vmunmap(void *p, size_t len) { (void)len; free(p); return 0; }
#define mmap vmmap
#define munmap vmunmap
#include "tzmap.c"
#undef mmap
#undef munmap

int main(void)
{
	char line[4200];
	tzmap_t m = NULL;
	setvbuf(stdout, NULL, _IOLBF, 0);
	while (fgets(line, sizeof line, stdin)) {
		size_t n = strlen(line);
		while (n && (line[n - 1] == '\n' || line[n - 1] == '\r')) line[--n] = 0;
		switch (line[0]) {
		case 'O':
			if (m) { tzm_close(m); m = NULL; }
			m = tzm_open(line + 2);
			printf("{\"e\":\"Open\",\"ok\":%d}\n", m != NULL);
			break;
		case 'C':
			if (m) { tzm_close(m); m = NULL; }
			printf("{\"e\":\"Close\"}\n");
			break;
		case 'F': {
			const char *r = m ? tzm_find(m, line + 2) : NULL;
			if (r == NULL) {
				printf("{\"e\":\"Find\",\"r\":null}\n");
			} else {
				/* the answer must be a terminated string inside the map image: strnlen is checked by the sanitizer */
				char buf[300];
				size_t k = 0;
				for (; k < sizeof buf - 1 && r[k]; k++) buf[k] = (r[k] >= 0x20 && r[k] < 0x7f && r[k] != '"' && r[k] != '\\') ? r[k] : '?';
				buf[k] = 0;
				printf("{\"e\":\"Find\",\"r\":\"%s\"}\n", buf);
			}
			break;
		}
		default:
			printf("{\"e\":\"?\"}\n");
		}
	}
	return 0;
}
