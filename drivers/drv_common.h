/* common helpers for the verification drivers: chain access, mismatch table, ndjson output */
#ifndef DRV_COMMON_H
#define DRV_COMMON_H
#include <stdio.h>
#include <stdlib.h>
#include <string.h>
#include <stdint.h>
#include <stdarg.h>
#include <sys/mman.h>
#include <sys/stat.h>
#include <fcntl.h>
#include <unistd.h>

enum { F_LDN, F_Y, F_M, F_D, F_WD, F_YD, F_IY, F_IW, F_WU, F_WW, F_C, F_BDM, F_BCUM, F_HY, F_HM, F_HD, NF };
#define NDAYS 917933
#define LDN_1601 6653
#define LDN_LAST 917932
#define DAISY_OF_LDN(l) ((l) - 6652)
#define MDN_OF_LDN(l) ((l) + 578102)
#define JDN_OF_LDN(l) ((double)(l) + 2299160.5)
#define UDAY_OF_LDN(l) ((l) - 141427)

static const int32_t *chain;

static void load_chain(const char *path)
{
	int fd = open(path, O_RDONLY);
	struct stat st;
	if (fd < 0 || fstat(fd, &st) < 0 || st.st_size != (off_t)NDAYS * NF * 4) {
		fprintf(stderr, "cannot load chain %s\n", path);
		exit(3);
	}
	chain = mmap(NULL, st.st_size, PROT_READ, MAP_PRIVATE, fd, 0);
	if (chain == MAP_FAILED) {
		exit(3);
	}
}
#define ROW(i) (chain + (size_t)(i) * NF)

/* ---- mismatch table ---- */
#define MAXKEYS 4096
#define MAXSAMP 3
struct mkey {
	char key[96];
	long evals, mism;
	int minl, maxl;
	char samp[MAXSAMP][400];
	int nsamp;
};
static struct mkey mk[MAXKEYS];
static int nmk;

static struct mkey *mk_get(const char *key)
{
	/* small open hash */
	static int idx[8192];
	static int init;
	unsigned h = 5381;
	if (!init) {
		memset(idx, -1, sizeof idx);
		init = 1;
	}
	for (const char *p = key; *p; p++) {
		h = h * 33 ^ (unsigned char)*p;
	}
	for (unsigned i = h & 8191;; i = (i + 1) & 8191) {
		if (idx[i] < 0) {
			if (nmk >= MAXKEYS) {
				fprintf(stderr, "too many keys\n");
				exit(3);
			}
			idx[i] = nmk;
			strncpy(mk[nmk].key, key, sizeof mk[nmk].key - 1);
			mk[nmk].minl = 1 << 30;
			mk[nmk].maxl = -1;
			return &mk[nmk++];
		}
		if (!strcmp(mk[idx[i]].key, key)) {
			return &mk[idx[i]];
		}
	}
}

static inline void ev(struct mkey *k)
{
	k->evals++;
}

static void mism(struct mkey *k, int ldn, const char *fmt, ...)
{
	k->mism++;
	if (ldn < k->minl) k->minl = ldn;
	if (ldn > k->maxl) k->maxl = ldn;
	if (k->nsamp < MAXSAMP) {
		va_list ap;
		va_start(ap, fmt);
		vsnprintf(k->samp[k->nsamp++], sizeof k->samp[0], fmt, ap);
		va_end(ap);
	}
}

static void jstr(FILE *f, const char *s)
{
	fputc('"', f);
	for (; *s; s++) {
		unsigned char c = (unsigned char)*s;
		if (c == '"' || c == '\\') {
			fputc('\\', f);
			fputc(c, f);
		} else if (c < 0x20 || c >= 0x7f) {
			fprintf(f, "\\u%04x", c);
		} else {
			fputc(c, f);
		}
	}
	fputc('"', f);
}

static void dump_keys(FILE *f)
{
	for (int i = 0; i < nmk; i++) {
		fprintf(f, "{\"k\":");
		jstr(f, mk[i].key);
		fprintf(f, ",\"n\":%ld,\"bad\":%ld,\"min\":%d,\"max\":%d,\"s\":[", mk[i].evals, mk[i].mism,
			mk[i].mism ? mk[i].minl : -1, mk[i].maxl);
		for (int j = 0; j < mk[i].nsamp; j++) {
			if (j) fputc(',', f);
			jstr(f, mk[i].samp[j]);
		}
		fprintf(f, "]}\n");
	}
}

/* key cache macro: resolve the key string once per call site */
#define KEY(var, ...) static struct mkey *var; if (!var) { char kb_[96]; snprintf(kb_, sizeof kb_, __VA_ARGS__); var = mk_get(kb_); }

static uint64_t rng_s[2] = {0x9E3779B97F4A7C15ULL, 0xD1B54A32D192ED03ULL};
static inline uint64_t rnd(void)
{
	uint64_t s1 = rng_s[0], s0 = rng_s[1];
	rng_s[0] = s0;
	s1 ^= s1 << 23;
	rng_s[1] = s1 ^ s0 ^ (s1 >> 17) ^ (s0 >> 26);
	return rng_s[1] + s0;
}
static void rnd_seed(uint64_t s)
{
	rng_s[0] = s * 0x9E3779B97F4A7C15ULL + 1;
	rng_s[1] = (s ^ 0xD1B54A32D192ED03ULL) * 0xBF58476D1CE4E5B9ULL + 7;
	for (int i = 0; i < 8; i++) rnd();
}
#endif
