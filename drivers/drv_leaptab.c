/* drv_leaptab -- the compiled leap-second tables, decoded field by field through the library's own types.
 *   T          dump the arrays linked into libdut.a (leaps_corr/ymd/ymcw/d/s/hms, nleaps)
 *   Y hex      decode a packed ymd word    -> y m d
 *   C hex      decode a packed ymcw word   -> y m c w   (w as ISO weekday 1..7)
 *   H hex      decode a packed hms word    -> h m s
 *   PY text    parse text as %Y-%m-%d     -> the packed word the library holds for that day ("hex")
 *   PC text    parse text as %Y-%m-%c-%w  -> ditto for the ymcw notation
 * one answer line per command, JSON */
#include <stdio.h>
#include <stdlib.h>
#include <string.h>
#include <stdint.h>
#include "date-core.h"
#include "time-core.h"
#include "leap-seconds.h"

static void
pr_ymd(uint32_t u)
{
	dt_ymd_t x;
	x.u = u;
	printf("[%u,%u,%u]", (unsigned)x.y, (unsigned)x.m, (unsigned)x.d);
}

static void
pr_ymcw(uint32_t u)
{
	dt_ymcw_t x;
	x.u = u;
	printf("[%u,%u,%u,%u]", (unsigned)x.y, (unsigned)x.m, (unsigned)x.c, (unsigned)(x.w ? x.w : 7U));
}

static void
pr_hms(uint32_t u)
{
	struct dt_t_s t;
	memset(&t, 0, sizeof(t));
	t.hms.u24 = u;
	if (u == UINT32_MAX) {
		printf("[-1,-1,-1]");
		return;
	}
	printf("[%u,%u,%u]", (unsigned)t.hms.h, (unsigned)t.hms.m, (unsigned)t.hms.s);
}

int
main(void)
{
	char line[256];

	while (fgets(line, sizeof(line), stdin) != NULL) {
		if (line[0] == 'T') {
			printf("{\"n\":%zu,\"rows\":[", nleaps);
			for (size_t i = 0; i < nleaps; i++) {
				long long s = leaps_s[i];
				printf("%s{\"corr\":%d,\"ymd\":", i ? "," : "", leaps_corr[i]);
				pr_ymd(leaps_ymd[i]);
				printf(",\"ymdu\":\"%x\",\"ymcw\":", leaps_ymd[i]);
				pr_ymcw(leaps_ymcw[i]);
				printf(",\"ymcwu\":\"%x\",\"d\":\"%x\",\"s\":\"%lld\",\"hms\":", leaps_ymcw[i], leaps_d[i], s);
				pr_hms(leaps_hms[i]);
				printf("}");
			}
			printf("]}\n");
		} else if (line[0] == 'P' && (line[1] == 'Y' || line[1] == 'C')) {
			char *ep = NULL;
			struct dt_d_s d;
			line[strcspn(line, "\n")] = '\0';
			d = dt_strpd(line + 3, line[1] == 'Y' ? "%Y-%m-%d" : "%Y-%m-%c-%w", &ep);
			printf("\"%x\"\n", line[1] == 'Y' ? d.ymd.u : d.ymcw.u);
		} else if (line[0] == 'Y') {
			pr_ymd((uint32_t)strtoul(line + 2, NULL, 16));
			putchar('\n');
		} else if (line[0] == 'C') {
			pr_ymcw((uint32_t)strtoul(line + 2, NULL, 16));
			putchar('\n');
		} else if (line[0] == 'H') {
			pr_hms((uint32_t)strtoul(line + 2, NULL, 16));
			putchar('\n');
		} else {
			printf("null\n");
		}
		fflush(stdout);
	}
	return 0;
}
