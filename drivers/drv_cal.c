/* drv_cal -- steps the real dateutils library (libdut.a, public API) along the day chain
 * emitted by TLC from spec/Calendar.tla and compares the projected abstract state.
 *
 *   drv_cal CHAIN MODE LO HI [STEP [SEED]]
 * modes: conv (C01)  rt (C02)  addd (C03)  addm (C04)  biz (C07)  cmp (C08)  trace (B events)
 * output: one ndjson line per comparison key with evaluation / mismatch counts and samples */
#if defined HAVE_CONFIG_H
# include "config.h"
#endif
#include <stdbool.h>
#include <math.h>
#include "drv_common.h"
#include "dt-core.h"
#include "date-core.h"
#include "dt-locale.h"

enum rep { R_YMD, R_YMCW, R_YWD, R_YD, R_BIZDA, R_DAISY, R_LDN, R_MDN, R_JDN, NREP };
static const char *repname[NREP] = {"ymd", "ymcw", "ywd", "yd", "bizda", "daisy", "ldn", "mdn", "jdn"};
static const dt_dtyp_t reptyp[NREP] = {DT_YMD, DT_YMCW, DT_YWD, DT_YD, DT_BIZDA, DT_DAISY, DT_LDN, DT_MDN, DT_JDN};

static const char *wd_long[] = {"?", "Monday", "Tuesday", "Wednesday", "Thursday", "Friday", "Saturday", "Sunday"};
static const char *wd_abbr[] = {"?", "Mon", "Tue", "Wed", "Thu", "Fri", "Sat", "Sun"};
static const char wd_one[] = "?MTWRFAS";
static const char *mon_long[] = {"?", "January", "February", "March", "April", "May", "June", "July", "August",
	"September", "October", "November", "December"};
static const char *mon_abbr[] = {"?", "Jan", "Feb", "Mar", "Apr", "May", "Jun", "Jul", "Aug", "Sep", "Oct", "Nov", "Dec"};
static const char mon_one[] = "?FGHJKMNQUVXZ";

static int is_leap(int y) { return y % 4 == 0 && (y % 100 != 0 || y % 400 == 0); }
static int mlen(int y, int m)
{
	static const int ml[] = {0, 31, 28, 31, 30, 31, 30, 31, 31, 30, 31, 30, 31};
	return m == 2 && is_leap(y) ? 29 : ml[m];
}

static void roman(char *b, int v)
{
	static const int val[] = {1000, 900, 500, 400, 100, 90, 50, 40, 10, 9, 5, 4, 1};
	static const char *sym[] = {"M", "CM", "D", "CD", "C", "XC", "L", "XL", "X", "IX", "V", "IV", "I"};
	*b = 0;
	for (int i = 0; i < 13; i++) {
		while (v >= val[i]) {
			strcat(b, sym[i]);
			v -= val[i];
		}
	}
}
static const char *ordsuf(int v)
{
	if (v % 100 >= 11 && v % 100 <= 13) return "th";
	switch (v % 10) {
	case 1: return "st";
	case 2: return "nd";
	case 3: return "rd";
	}
	return "th";
}

/* business days in the whole month of row r: bdm of the month's last day */
static int month_bdays(const int32_t *r)
{
	int last = r[F_LDN] + (mlen(r[F_Y], r[F_M]) - r[F_D]);
	return ROW(last)[F_BDM];
}

/* the specifiers judged; alt = alternative accepted text (only %w on Sundays: doc says 00, code says 07) */
static const char *SPECS[] = {"%F", "%Y", "%y", "%_y", "%m", "%d", "%u", "%w", "%j", "%D", "%c", "%U", "%V", "%C", "%W",
	"%A", "%a", "%_a", "%B", "%b", "%h", "%_b", "%Q", "%q", "%G", "%g", "%rY", "%dth", "%mth", "%Od", "%Om", "%OY", "%Oy",
	"%-d", "%-m", "% d", "%0d", "%db", "%dB", NULL};
#define NSPECS 39

static int render(char *b, char *alt, const char *sp, const int32_t *r)
{
	/* returns 0 if the specifier is not judged for this day (business-day specs on weekends) */
	int y = r[F_Y], m = r[F_M], d = r[F_D], wd = r[F_WD];
	*alt = 0;
	if (!strcmp(sp, "%F")) sprintf(b, "%04d-%02d-%02d", y, m, d);
	else if (!strcmp(sp, "%Y")) sprintf(b, "%04d", y);
	else if (!strcmp(sp, "%y")) sprintf(b, "%02d", y % 100);
	else if (!strcmp(sp, "%_y")) sprintf(b, "%d", y % 10);
	else if (!strcmp(sp, "%m") || !strcmp(sp, "%0m")) sprintf(b, "%02d", m);
	else if (!strcmp(sp, "%d") || !strcmp(sp, "%0d")) sprintf(b, "%02d", d);
	else if (!strcmp(sp, "%-d")) sprintf(b, "%d", d);
	else if (!strcmp(sp, "%-m")) sprintf(b, "%d", m);
	else if (!strcmp(sp, "% d")) sprintf(b, "%2d", d);
	else if (!strcmp(sp, "%u")) sprintf(b, "%d", wd);
	else if (!strcmp(sp, "%w")) { sprintf(b, "%02d", wd); if (wd == 7) strcpy(alt, "00"); }
	else if (!strcmp(sp, "%j") || !strcmp(sp, "%D")) sprintf(b, "%03d", r[F_YD]);
	else if (!strcmp(sp, "%c")) sprintf(b, "%02d", r[F_C]);
	else if (!strcmp(sp, "%U")) sprintf(b, "%02d", r[F_WU]);
	else if (!strcmp(sp, "%V")) sprintf(b, "%02d", r[F_IW]);
	else if (!strcmp(sp, "%C")) sprintf(b, "%02d", (r[F_YD] - 1) / 7 + 1);
	else if (!strcmp(sp, "%W")) sprintf(b, "%02d", r[F_WW]);
	else if (!strcmp(sp, "%A")) strcpy(b, wd_long[wd]);
	else if (!strcmp(sp, "%a")) strcpy(b, wd_abbr[wd]);
	else if (!strcmp(sp, "%_a")) sprintf(b, "%c", wd_one[wd]);
	else if (!strcmp(sp, "%B")) strcpy(b, mon_long[m]);
	else if (!strcmp(sp, "%b") || !strcmp(sp, "%h")) strcpy(b, mon_abbr[m]);
	else if (!strcmp(sp, "%_b")) sprintf(b, "%c", mon_one[m]);
	else if (!strcmp(sp, "%Q")) sprintf(b, "Q%d", (m - 1) / 3 + 1);
	else if (!strcmp(sp, "%q")) sprintf(b, "%02d", (m - 1) / 3 + 1);
	else if (!strcmp(sp, "%G") || !strcmp(sp, "%rY")) sprintf(b, "%04d", r[F_IY]);
	else if (!strcmp(sp, "%g")) sprintf(b, "%02d", r[F_IY] % 100);
	else if (!strcmp(sp, "%dth")) sprintf(b, "%d%s", d, ordsuf(d));
	else if (!strcmp(sp, "%mth")) sprintf(b, "%d%s", m, ordsuf(m));
	else if (!strcmp(sp, "%Od")) roman(b, d);
	else if (!strcmp(sp, "%Om")) roman(b, m);
	else if (!strcmp(sp, "%OY")) roman(b, y);
	else if (!strcmp(sp, "%Oy")) { roman(b, y % 100); }
	else if (!strcmp(sp, "%db")) { if (wd > 5) return 0; sprintf(b, "%02db", r[F_BDM]); }
	else if (!strcmp(sp, "%dB")) { if (wd > 5) return 0; sprintf(b, "%02dB", month_bdays(r) - r[F_BDM]); }
	else return 0;
	return 1;
}

/* text of row r in representation R, as the tools accept it */
static const char *repfmt[NREP] = {"%F", "%Y-%m-%c-%w", "%G-W%V-%u", "%Y-%j", "%Y-%m-%db", NULL, "ldn", "mdn", "jdn"};
static void reptext(char *b, int R, const int32_t *r)
{
	switch (R) {
	case R_YMD: sprintf(b, "%04d-%02d-%02d", r[F_Y], r[F_M], r[F_D]); break;
	case R_YMCW: sprintf(b, "%04d-%02d-%02d-%02d", r[F_Y], r[F_M], r[F_C], r[F_WD]); break;
	case R_YWD: sprintf(b, "%04d-W%02d-%d", r[F_IY], r[F_IW], r[F_WD]); break;
	case R_YD: sprintf(b, "%04d-%03d", r[F_Y], r[F_YD]); break;
	case R_BIZDA: sprintf(b, "%04d-%02d-%02db", r[F_Y], r[F_M], r[F_BDM]); break;
	case R_LDN: sprintf(b, "%d", r[F_LDN]); break;
	case R_MDN: sprintf(b, "%d", MDN_OF_LDN(r[F_LDN])); break;
	case R_JDN: sprintf(b, "%.1f", JDN_OF_LDN(r[F_LDN])); break;
	default: *b = 0;
	}
}

static int rep_applies(int R, const int32_t *r)
{
	return R != R_BIZDA || r[F_WD] <= 5;
}

/* build the value of row r in representation R through the library's own parser
 * (daisy has no text form: built directly) */
static struct dt_d_s mkval(int R, const int32_t *r, int *ok)
{
	struct dt_d_s v = {DT_DUNK};
	char txt[64], *ep = NULL;
	*ok = 1;
	if (R == R_DAISY) {
		v.typ = DT_DAISY;
		v.daisy = DAISY_OF_LDN(r[F_LDN]);
		return v;
	}
	reptext(txt, R, r);
	struct dt_dt_s dt = dt_strpdt(txt, repfmt[R], &ep);
	if (dt.d.typ != reptyp[R] || ep == NULL || *ep != '\0' || dt.sandwich) {
		*ok = 0;
	}
	return dt.d;
}

/* compare a library value W (of representation T) with the chain row; returns 1 if equal */
static int same_day(int T, struct dt_d_s w, const int32_t *r, char *got)
{
	switch (T) {
	case R_YMD:
		sprintf(got, "ymd %u-%u-%u", w.ymd.y, w.ymd.m, w.ymd.d);
		return w.typ == DT_YMD && (int)w.ymd.y == r[F_Y] && (int)w.ymd.m == r[F_M] && (int)w.ymd.d == r[F_D];
	case R_YMCW:
		sprintf(got, "ymcw %u-%u-%u-%u", w.ymcw.y, w.ymcw.m, w.ymcw.c, w.ymcw.w);
		return w.typ == DT_YMCW && (int)w.ymcw.y == r[F_Y] && (int)w.ymcw.m == r[F_M] && (int)w.ymcw.c == r[F_C] &&
			(int)w.ymcw.w % 7 == r[F_WD] % 7;
	case R_YWD:
		sprintf(got, "ywd %u-W%u-%u", w.ywd.y, w.ywd.c, w.ywd.w);
		return w.typ == DT_YWD && (int)w.ywd.y == r[F_IY] && (int)w.ywd.c == r[F_IW] && (int)w.ywd.w % 7 == r[F_WD] % 7;
	case R_YD:
		sprintf(got, "yd %u-%d", w.yd.y, w.yd.d);
		return w.typ == DT_YD && (int)w.yd.y == r[F_Y] && (int)w.yd.d == r[F_YD];
	case R_BIZDA:
		sprintf(got, "bizda %u-%u-%ub", w.bizda.y, w.bizda.m, w.bizda.bd);
		return w.typ == DT_BIZDA && (int)w.bizda.y == r[F_Y] && (int)w.bizda.m == r[F_M] && (int)w.bizda.bd == r[F_BDM];
	case R_DAISY:
		sprintf(got, "daisy %u", w.daisy);
		return w.typ == DT_DAISY && (int)w.daisy == DAISY_OF_LDN(r[F_LDN]);
	case R_LDN:
		sprintf(got, "ldn %u", w.ldn);
		return w.typ == DT_LDN && (int)w.ldn == r[F_LDN];
	case R_MDN:
		sprintf(got, "mdn %u", w.mdn);
		return w.typ == DT_MDN && (int)w.mdn == MDN_OF_LDN(r[F_LDN]);
	case R_JDN:
		sprintf(got, "jdn %.2f", (double)w.jdn);
		return w.typ == DT_JDN && (double)w.jdn == JDN_OF_LDN(r[F_LDN]);
	}
	return 0;
}

static void fmt1(char *out, size_t osz, const char *fmt, struct dt_d_s v)
{
	struct dt_dt_s dt = {DT_UNK};
	dt.d = v;
	dt.sandwich = 0;
	size_t n = dt_strfdt(out, osz - 1, fmt, dt);
	if (n >= osz) n = osz - 1;
	out[n] = 0;
}


/* what the tools print for W in representation R, against the text of the expected row */
static int same_text(int R, struct dt_d_s w, const int32_t *t, char *got)
{
	char want[64];
	if (R == R_DAISY) return same_day(R, w, t, got);
	fmt1(got, 96, repfmt[R], w);
	reptext(want, R, t);
	return !strcmp(got, want);
}

/* ------------------------------------------------------------------ C01 */
/* bizda is a source only: dt_conv_to_bizda is an unimplemented stub in the library ("need a policy first") */
static unsigned srcmask = 0x1ff, tgtmask = 0x1ef;
static int do_specs = 1;

static void mode_conv(int lo, int hi, int step)
{
	char got[128], want[64], alt[16], txt[64];
	for (int l = lo; l <= hi; l += step) {
		const int32_t *r = ROW(l);
		for (int R = 0; R < NREP; R++) {
			int ok;
			if (!(srcmask >> R & 1) || !rep_applies(R, r)) continue;
			struct dt_d_s v = mkval(R, r, &ok);
			{
				static struct mkey *kp[NREP];
				if (!kp[R]) { char kb[64]; sprintf(kb, "parse %s", repname[R]); kp[R] = mk_get(kb); }
				ev(kp[R]);
				if (!ok) {
					reptext(txt, R, r);
					mism(kp[R], l, "%s not parsed as %s", txt, repname[R]);
					continue;
				}
			}
			/* (i) conversions */
			for (int T = 0; T < NREP; T++) {
				static struct mkey *kc[NREP][NREP];
				if (!(tgtmask >> T & 1) || !rep_applies(T, r)) continue;
				if (!kc[R][T]) { char kb[64]; sprintf(kb, "conv %s>%s", repname[R], repname[T]); kc[R][T] = mk_get(kb); }
				ev(kc[R][T]);
				struct dt_d_s w = dt_dconv(reptyp[T], v);
				if (!same_day(T, w, r, got)) {
					reptext(txt, R, r);
					mism(kc[R][T], l, "%04d-%02d-%02d src=%s '%s' -> %s", r[F_Y], r[F_M], r[F_D], repname[R], txt, got);
				}
			}
			/* (ii) getters */
			{
				static struct mkey *kg[NREP][12];
				static const char *gn[12] = {"year", "mon", "mday", "wday", "yday", "quarter", "wcnt_mon", "bday",
					"wcnt_year.U", "wcnt_year.W", "wcnt_year.V", "wcnt_year.C"};
				int gv[12], wv[12];
				gv[0] = dt_get_year(v); wv[0] = r[F_Y];
				gv[1] = dt_get_mon(v); wv[1] = r[F_M];
				gv[2] = dt_get_mday(v); wv[2] = r[F_D];
				gv[3] = (int)dt_get_wday(v); wv[3] = r[F_WD];
				gv[4] = (int)dt_get_yday(v); wv[4] = r[F_YD];
				gv[5] = dt_get_quarter(v); wv[5] = (r[F_M] - 1) / 3 + 1;
				gv[6] = dt_get_wcnt_mon(v); wv[6] = r[F_C];
				gv[7] = dt_get_bday(v); wv[7] = r[F_WD] <= 5 ? r[F_BDM] : -2;
				gv[8] = dt_get_wcnt_year(v, YWD_SUNWK_CNT); wv[8] = r[F_WU];
				gv[9] = dt_get_wcnt_year(v, YWD_MONWK_CNT); wv[9] = r[F_WW];
				gv[10] = dt_get_wcnt_year(v, YWD_ISOWK_CNT); wv[10] = r[F_IW];
				gv[11] = dt_get_wcnt_year(v, YWD_ABSWK_CNT); wv[11] = (r[F_YD] - 1) / 7 + 1;
				for (int g = 0; g < 12; g++) {
					if (wv[g] == -2) continue;
					/* the getters are documented as calendar specific (yday of a ymcw is the n-th weekday of the year,
					 * calendars without months answer 0 ...): judged for ymd only, the others are judged through
					 * what the formatter prints */
					if (R != R_YMD) continue;
					if (!kg[R][g]) { char kb[64]; sprintf(kb, "get %s.%s", repname[R], gn[g]); kg[R][g] = mk_get(kb); }
					ev(kg[R][g]);
					if (gv[g] != wv[g]) {
						mism(kg[R][g], l, "%04d-%02d-%02d held as %s: dt_get_%s=%d want %d", r[F_Y], r[F_M], r[F_D],
						     repname[R], gn[g], gv[g], wv[g]);
					}
				}
			}
			/* (iii) every specifier alone */
			if (do_specs) {
				static struct mkey *ks[NREP][NSPECS];
				for (int s = 0; SPECS[s]; s++) {
					if (!render(want, alt, SPECS[s], r)) continue;
					/* business days *before* ultimo are implemented for bizda values only ("no support yet") */
					if (!strcmp(SPECS[s], "%dB") && R != R_BIZDA) continue;
					if (!ks[R][s]) { char kb[64]; sprintf(kb, "strf %s %s", repname[R], SPECS[s]); ks[R][s] = mk_get(kb); }
					ev(ks[R][s]);
					fmt1(got, sizeof got, SPECS[s], v);
					if (strcmp(got, want) && (!*alt || strcmp(got, alt))) {
						mism(ks[R][s], l, "%04d-%02d-%02d held as %s: strf(%s)='%s' want '%s'", r[F_Y], r[F_M], r[F_D],
						     repname[R], SPECS[s], got, want);
					}
				}
				/* default output of the day-number calendars and %s */
				static struct mkey *kd[NREP][5];
				static const char *df[5] = {"ldn", "mdn", "jdn", "%s", "ymd"};
				for (int s = 0; s < 5; s++) {
					if (!kd[R][s]) { char kb[64]; sprintf(kb, "strf %s %s", repname[R], df[s]); kd[R][s] = mk_get(kb); }
					ev(kd[R][s]);
					fmt1(got, sizeof got, df[s], v);
					switch (s) {
					case 0: sprintf(want, "%d", l); break;
					case 1: sprintf(want, "%d", MDN_OF_LDN(l)); break;
					case 2: sprintf(want, "%.6f", JDN_OF_LDN(l)); break;
					case 3: sprintf(want, "%lld", (long long)UDAY_OF_LDN(l) * 86400LL); break;
					case 4: sprintf(want, "%04d-%02d-%02d", r[F_Y], r[F_M], r[F_D]); break;
					}
					if (strcmp(got, want)) {
						mism(kd[R][s], l, "%04d-%02d-%02d held as %s: strf(%s)='%s' want '%s'", r[F_Y], r[F_M], r[F_D],
						     repname[R], df[s], got, want);
					}
				}
			}
		}
	}
}

/* ------------------------------------------------------------------ C02 */
static void mode_rt(int lo, int hi, int step, int matrix)
{
	char got[160], a[64], b[64], want[160], alt[16], txt[64];
	for (int l = lo; l <= hi; l += step) {
		const int32_t *r = ROW(l);
		struct dt_d_s val[NREP];
		int have[NREP];
		for (int R = 0; R < NREP; R++) {
			have[R] = 0;
			if (!rep_applies(R, r)) continue;
			val[R] = mkval(R, r, &have[R]);
		}
		/* round trips R -> T -> R and chains R -> T -> U -> R: bit pattern must come back */
		for (int R = 0; R < NREP; R++) {
			if (!have[R] || R == R_BIZDA) continue;     /* no conversion *to* bizda exists (stub) */
			for (int T = 0; T < NREP; T++) {
				static struct mkey *k2[NREP][NREP];
				if (T == R || T == R_BIZDA || !rep_applies(T, r)) continue;
				if (!k2[R][T]) { char kb[64]; sprintf(kb, "rt %s>%s>%s", repname[R], repname[T], repname[R]); k2[R][T] = mk_get(kb); }
				ev(k2[R][T]);
				struct dt_d_s t = dt_dconv(reptyp[T], val[R]);
				struct dt_d_s back = dt_dconv(reptyp[R], t);
				if (back.typ != val[R].typ || back.u != val[R].u) {
					reptext(txt, R, r);
					mism(k2[R][T], l, "%s '%s' via %s: 0x%x -> 0x%x", repname[R], txt, repname[T], val[R].u, back.u);
				}
				if (!matrix) continue;
				for (int U = 0; U < NREP; U++) {
					static struct mkey *k3[NREP][NREP][NREP];
					if (U == R || U == T || U == R_BIZDA || !rep_applies(U, r)) continue;
					if (!k3[R][T][U]) {
						char kb[96];
						sprintf(kb, "rt %s>%s>%s>%s", repname[R], repname[T], repname[U], repname[R]);
						k3[R][T][U] = mk_get(kb);
					}
					ev(k3[R][T][U]);
					struct dt_d_s u = dt_dconv(reptyp[U], t);
					back = dt_dconv(reptyp[R], u);
					if (back.typ != val[R].typ || back.u != val[R].u) {
						reptext(txt, R, r);
						mism(k3[R][T][U], l, "%s '%s' via %s,%s: 0x%x -> 0x%x", repname[R], txt, repname[T], repname[U],
						     val[R].u, back.u);
					}
				}
			}
		}
		/* formatting independent of the held representation: same text as when held as ymd */
		for (int s = 0; SPECS[s]; s++) {
			if (!render(want, alt, SPECS[s], r) || !have[R_YMD] || !strcmp(SPECS[s], "%dB")) continue;
			fmt1(a, sizeof a, SPECS[s], val[R_YMD]);
			for (int R = 1; R < NREP; R++) {
				static struct mkey *kf[NREP][NSPECS];
				if (!have[R]) continue;
				if (!kf[R][s]) { char kb[64]; sprintf(kb, "repindep %s %s", repname[R], SPECS[s]); kf[R][s] = mk_get(kb); }
				ev(kf[R][s]);
				fmt1(b, sizeof b, SPECS[s], val[R]);
				if (strcmp(a, b)) {
					mism(kf[R][s], l, "%04d-%02d-%02d %s: as ymd '%s', as %s '%s'", r[F_Y], r[F_M], r[F_D], SPECS[s], a,
					     repname[R], b);
				}
			}
		}
		/* the named day-count formats (-f ldn|mdn|jdn, daisy inside) are formats too: the number printed for a value must not depend on
		 * the representation it is held in -- every representation reaches the day count through its own routine */
		if (have[R_YMD]) {
			for (int T = R_DAISY; T <= R_JDN; T++) {
				struct dt_d_s ref = dt_dconv(reptyp[T], val[R_YMD]);
				for (int R = 1; R < NREP; R++) {
					static struct mkey *kd[NREP][NREP];
					if (!have[R] || R == T) continue;
					if (!kd[R][T]) { char kb[64]; sprintf(kb, "repindep %s as %s", repname[R], repname[T]); kd[R][T] = mk_get(kb); }
					ev(kd[R][T]);
					struct dt_d_s x = dt_dconv(reptyp[T], val[R]);
					if (x.typ != ref.typ || x.u != ref.u) {
						reptext(txt, R, r);
						mism(kd[R][T], l, "%s '%s' as %s: 0x%x, held as ymd: 0x%x", repname[R], txt, repname[T], x.u, ref.u);
					}
				}
			}
		}
		/* order independence: strf("%S1|%S2") == strf("%S1") "|" strf("%S2") */
		if (matrix) {
			for (int R = 0; R < NREP; R++) {
				if (!have[R]) continue;
				char single[NSPECS][48];
				int okk[NSPECS];
				for (int s = 0; SPECS[s]; s++) {
					okk[s] = render(want, alt, SPECS[s], r) && (strcmp(SPECS[s], "%dB") || R == R_BIZDA);
					if (okk[s]) fmt1(single[s], sizeof single[s], SPECS[s], val[R]);
				}
				for (int s1 = 0; SPECS[s1]; s1++) {
					if (!okk[s1]) continue;
					for (int s2 = 0; SPECS[s2]; s2++) {
						static struct mkey *ko[NREP][NSPECS];
						char f[32];
						if (!okk[s2] || s1 == s2) continue;
						if (!ko[R][s2]) { char kb[64]; sprintf(kb, "order %s %s", repname[R], SPECS[s2]); ko[R][s2] = mk_get(kb); }
						ev(ko[R][s2]);
						sprintf(f, "%s|%s", SPECS[s1], SPECS[s2]);
						fmt1(got, sizeof got, f, val[R]);
						sprintf(want, "%s|%s", single[s1], single[s2]);
						if (strcmp(got, want)) {
							mism(ko[R][s2], l, "%04d-%02d-%02d as %s: strf('%s')='%s' but parts give '%s'", r[F_Y], r[F_M],
							     r[F_D], repname[R], f, got, want);
						}
					}
				}
			}
		}
		/* consecutive days map to consecutive values: value(l) + 1d == value(l+1) bitwise */
		if (l < LDN_LAST) {
			const int32_t *r2 = ROW(l + 1);
			for (int R = 0; R < NREP; R++) {
				static struct mkey *kn[NREP];
				int ok2;
				if (!have[R] || R == R_BIZDA) continue;
				if (!kn[R]) { char kb[64]; sprintf(kb, "succ %s", repname[R]); kn[R] = mk_get(kb); }
				ev(kn[R]);
				struct dt_d_s nx = mkval(R, r2, &ok2);
				struct dt_d_s st = dt_dadd_d(val[R], 1);
				if (!ok2 || st.typ != nx.typ || (R == R_JDN ? st.jdn != nx.jdn : st.u != nx.u)) {
					reptext(txt, R, r);
					mism(kn[R], l, "%s '%s' +1d: 0x%x want 0x%x", repname[R], txt, st.u, nx.u);
				}
			}
		}
		/* Umm-al-Qura inside the table range */
		if (r[F_HY]) {
			KEY(kh1, "hijri from-greg");
			KEY(kh2, "hijri to-greg");
			KEY(kh3, "hijri succ");
			struct dt_d_s h = dt_dconv(DT_UMMULQURA, val[R_YMD]);
			ev(kh1);
			if (h.typ != DT_UMMULQURA || (int)h.ummulqura.y != r[F_HY] || (int)h.ummulqura.m != r[F_HM] ||
			    (int)h.ummulqura.d != r[F_HD]) {
				mism(kh1, l, "%04d-%02d-%02d -> hijri %u-%u-%u want %d-%d-%d", r[F_Y], r[F_M], r[F_D], h.ummulqura.y,
				     h.ummulqura.m, h.ummulqura.d, r[F_HY], r[F_HM], r[F_HD]);
			}
			struct dt_d_s hv = {DT_UMMULQURA};
			hv.ummulqura.y = r[F_HY]; hv.ummulqura.m = r[F_HM]; hv.ummulqura.d = r[F_HD];
			for (int T = 0; T < NREP; T++) {
				if (!rep_applies(T, r) || T == R_BIZDA) continue;
				ev(kh2);
				struct dt_d_s w = dt_dconv(reptyp[T], hv);
				if (!same_day(T, w, r, got)) {
					mism(kh2, l, "hijri %d-%d-%d -> %s want %04d-%02d-%02d", r[F_HY], r[F_HM], r[F_HD], got, r[F_Y], r[F_M], r[F_D]);
				}
			}
			(void)kh3;
		}
	}
}

/* ------------------------------------------------------------------ C03 */
static const int KSMALL[] = {1, 2, 3, 4, 5, 6, 7, 8, 13, 14, 15, 27, 28, 29, 30, 31, 32, 58, 59, 60, 61, 62, 89, 90, 91, 92,
	181, 182, 183, 184, 364, 365, 366, 367, 730, 731, 1096, 1461};
static const int KBIG[] = {1462, 3652, 3653, 36524, 36525, 146096, 146097, 146098, 292194};

static void add_one(int l, int R, struct dt_d_s v, int k, int weeks, const char *cls)
{
	static struct mkey *ka[NREP][2][4];
	int ci = cls[0] == 's' ? 0 : cls[0] == 'b' ? 1 : cls[0] == 'r' ? 2 : 3;
	int tl = l + (weeks ? 7 * k : k);
	char got[128], txt[64];
	if (tl < LDN_1601 || tl > LDN_LAST) return;
	const int32_t *r = ROW(l), *t = ROW(tl);
	if (!rep_applies(R, t)) return;
	if (!ka[R][weeks][ci]) {
		char kb[64];
		sprintf(kb, "add%s %s %s", weeks ? "w" : "d", repname[R], cls);
		ka[R][weeks][ci] = mk_get(kb);
	}
	ev(ka[R][weeks][ci]);
	struct dt_d_s w = weeks ? dt_dadd_w(v, k) : dt_dadd_d(v, k);
	if (!same_day(R, w, t, got)) {
		reptext(txt, R, r);
		mism(ka[R][weeks][ci], l, "%s '%s' %+d%s -> %s want %04d-%02d-%02d", repname[R], txt, k, weeks ? "w" : "d", got,
		     t[F_Y], t[F_M], t[F_D]);
	}
}

static void mode_addd(int lo, int hi, int step, int nrand, int bigstride)
{
	for (int l = lo; l <= hi; l += step) {
		const int32_t *r = ROW(l);
		for (int R = 0; R < NREP; R++) {
			int ok;
			if (!rep_applies(R, r)) continue;
			struct dt_d_s v = mkval(R, r, &ok);
			if (!ok) continue;   /* reported by conv */
			for (unsigned i = 0; i < sizeof KSMALL / sizeof *KSMALL; i++) {
				add_one(l, R, v, KSMALL[i], 0, "small");
				add_one(l, R, v, -KSMALL[i], 0, "small");
				if (KSMALL[i] <= 62) {
					add_one(l, R, v, KSMALL[i], 1, "small");
					add_one(l, R, v, -KSMALL[i], 1, "small");
				}
			}
			add_one(l, R, v, 0, 0, "small");
			if (bigstride && l % bigstride == 0) {
				for (unsigned i = 0; i < sizeof KBIG / sizeof *KBIG; i++) {
					add_one(l, R, v, KBIG[i], 0, "big");
					add_one(l, R, v, -KBIG[i], 0, "big");
				}
			}
			for (int i = 0; i < nrand; i++) {
				int k = (int)(rnd() % 1601) - 800;
				add_one(l, R, v, k, 0, "rand");
				/* a then b == a+b ; n then -n == identity: through the library itself */
				{
					static struct mkey *kl[NREP];
					int a = (int)(rnd() % 401) - 200, b = (int)(rnd() % 401) - 200;
					if (l + a < LDN_1601 || l + a > LDN_LAST || l + a + b < LDN_1601 || l + a + b > LDN_LAST) continue;
					if (!rep_applies(R, ROW(l + a)) || !rep_applies(R, ROW(l + a + b))) continue;
					if (!kl[R]) { char kb[64]; sprintf(kb, "addlaw %s", repname[R]); kl[R] = mk_get(kb); }
					ev(kl[R]);
					struct dt_d_s x = dt_dadd_d(dt_dadd_d(v, a), b);
					struct dt_d_s y = dt_dadd_d(v, a + b);
					struct dt_d_s z = dt_dadd_d(dt_dadd_d(v, a), -a);
					char got[128];
					if (!same_day(R, x, ROW(l + a + b), got) || !same_day(R, y, ROW(l + a + b), got) || !same_day(R, z, r, got)) {
						mism(kl[R], l, "%s ldn %d a=%d b=%d: (v+a)+b / v+(a+b) / (v+a)-a disagree with the chain (%s)",
						     repname[R], l, a, b, got);
					}
				}
			}
		}
	}
}

/* ------------------------------------------------------------------ C04 */
/* expected result of adding k months to row r in representation R, as a chain index (or -1: out of range) */
static int ldn_of_ymd(int y, int m, int d)
{
	/* locate via chain: binary search on (y, m, d) */
	int lo = 0, hi = LDN_LAST;
	while (lo < hi) {
		int mid = (lo + hi) / 2;
		const int32_t *r = ROW(mid);
		long a = (long)r[F_Y] * 10000 + r[F_M] * 100 + r[F_D], b = (long)y * 10000 + m * 100 + d;
		if (a < b) lo = mid + 1; else hi = mid;
	}
	const int32_t *r = ROW(lo);
	return (r[F_Y] == y && r[F_M] == m && r[F_D] == d) ? lo : -1;
}

static int expect_addm(int R, const int32_t *r, int k)
{
	int t = r[F_Y] * 12 + (r[F_M] - 1) + k;
	int y = t / 12, m = t % 12 + 1;
	if (y < 1601 || y > 4095) return -1;
	switch (R) {
	case R_YMD: {
		int d = r[F_D] > mlen(y, m) ? mlen(y, m) : r[F_D];
		return ldn_of_ymd(y, m, d);
	}
	case R_YMCW: {
		/* the c-th weekday wd of the target month, clamped to the last existing one */
		int first = ldn_of_ymd(y, m, 1);
		int w1 = ROW(first)[F_WD];
		int off = (r[F_WD] - w1 + 7) % 7;
		int d = 1 + off + 7 * (r[F_C] - 1);
		while (d > mlen(y, m)) d -= 7;
		return first + d - 1;
	}
	case R_BIZDA: {
		/* the bd-th business day of the target month, clamped to the last one */
		int first = ldn_of_ymd(y, m, 1), last = first + mlen(y, m) - 1;
		int tot = ROW(last)[F_BDM];
		int bd = r[F_BDM] > tot ? tot : r[F_BDM];
		for (int l = first; l <= last; l++) {
			if (ROW(l)[F_WD] <= 5 && ROW(l)[F_BDM] == bd) return l;
		}
		return -1;
	}
	}
	return -1;
}

static int iso_weeks(int iy)
{
	/* from the chain: ISO week of Dec 28 */
	int l = ldn_of_ymd(iy, 12, 28);
	return l < 0 ? 52 : ROW(l)[F_IW];
}

static int expect_addy(int R, const int32_t *r, int k)
{
	switch (R) {
	case R_YMD: case R_YMCW: case R_BIZDA:
		return expect_addm(R, r, 12 * k);
	case R_YD: {
		int y = r[F_Y] + k;
		if (y < 1601 || y > 4095) return -1;
		int yl = is_leap(y) ? 366 : 365;
		int d = r[F_YD] > yl ? yl : r[F_YD];
		return ldn_of_ymd(y, 1, 1) + d - 1;
	}
	case R_YWD: {
		int iy = r[F_IY] + k;
		if (iy < 1602 || iy > 4094) return -1;
		int w = r[F_IW] > iso_weeks(iy) ? iso_weeks(iy) : r[F_IW];
		/* Monday of ISO week 1 = Monday on or before Jan 4 */
		int j4 = ldn_of_ymd(iy, 1, 4);
		int mon1 = j4 - (ROW(j4)[F_WD] - 1);
		return mon1 + 7 * (w - 1) + (r[F_WD] - 1);
	}
	}
	return -1;
}

static void mode_addm(int lo, int hi, int step, int kmax, int ymax)
{
	char got[128], txt[64];
	static const int MR[] = {R_YMD, R_YMCW, R_BIZDA};
	static const int YR[] = {R_YMD, R_YMCW, R_BIZDA, R_YWD, R_YD};
	for (int l = lo; l <= hi; l += step) {
		const int32_t *r = ROW(l);
		for (unsigned ri = 0; ri < 3; ri++) {
			int R = MR[ri], ok;
			if (!rep_applies(R, r)) continue;
			struct dt_d_s v = mkval(R, r, &ok);
			if (!ok) continue;
			/* beyond the window: counts that are whole multiples of the weekday cycles (28 y, 400 y) and of a century */
			static const int MX[] = {336, 672, 1200, 2400, 4800, 337, 1199};
			for (int ki = -kmax; ki <= kmax + 2 * (int)(sizeof(MX) / sizeof(*MX)); ki++) {
				int k = ki <= kmax ? ki : ((ki - kmax) & 1 ? 1 : -1) * MX[(ki - kmax - 1) / 2];
				static struct mkey *km[NREP], *kq[NREP], *kc[NREP];
				int e = expect_addm(R, r, k);
				if (e < LDN_1601 || e > LDN_LAST) continue;
				if (!km[R]) { char kb[64]; sprintf(kb, "addm %s", repname[R]); km[R] = mk_get(kb); }
				ev(km[R]);
				/* print after fixup, as the tools do: through the formatter's own conversion */
				struct dt_d_s w = dt_dadd_m(v, k);
				if (!same_text(R, w, ROW(e), got)) {
					reptext(txt, R, r);
					mism(km[R], l, "%s '%s' %+dmo -> %s want %04d-%02d-%02d", repname[R], txt, k, got, ROW(e)[F_Y], ROW(e)[F_M],
					     ROW(e)[F_D]);
				}
				/* composition: +a then +b (no print in between) == +(a+b), for a split of k */
				if (k != 0) {
					int a = k / 2 + (k % 3), b = k - a;
					if (!kc[R]) { char kb[64]; sprintf(kb, "addm-compose %s", repname[R]); kc[R] = mk_get(kb); }
					int ea = expect_addm(R, r, a);
					if (ea >= LDN_1601 && ea <= LDN_LAST) {
						ev(kc[R]);
						struct dt_d_s w2 = dt_dadd_m(dt_dadd_m(v, a), b);
						if (!same_text(R, w2, ROW(e), got)) {
							reptext(txt, R, r);
							mism(kc[R], l, "%s '%s' %+dmo %+dmo -> %s want %04d-%02d-%02d", repname[R], txt, a, b, got,
							     ROW(e)[F_Y], ROW(e)[F_M], ROW(e)[F_D]);
						}
					}
				}
				(void)kq;
			}
		}
		for (unsigned ri = 0; ri < 5; ri++) {
			int R = YR[ri], ok;
			if (!rep_applies(R, r)) continue;
			struct dt_d_s v = mkval(R, r, &ok);
			if (!ok) continue;
			static const int YX[] = {28, 56, 84, 100, 112, 200, 400, 800, 19, 99};
			for (int ki = -ymax; ki <= ymax + 2 * (int)(sizeof(YX) / sizeof(*YX)); ki++) {
				int k = ki <= ymax ? ki : ((ki - ymax) & 1 ? 1 : -1) * YX[(ki - ymax - 1) / 2];
				static struct mkey *ky[NREP], *kc[NREP];
				int e = expect_addy(R, r, k);
				if (e < LDN_1601 || e > LDN_LAST) continue;
				if (!ky[R]) { char kb[64]; sprintf(kb, "addy %s", repname[R]); ky[R] = mk_get(kb); }
				ev(ky[R]);
				struct dt_d_s w = dt_dadd_y(v, k);
				if (!same_text(R, w, ROW(e), got)) {
					reptext(txt, R, r);
					mism(ky[R], l, "%s '%s' %+dy -> %s want %04d-%02d-%02d", repname[R], txt, k, got, ROW(e)[F_Y], ROW(e)[F_M],
					     ROW(e)[F_D]);
				}
				if (k != 0) {
					int a = k / 2 + (k % 2), b = k - a;
					int ea = expect_addy(R, r, a);
					if (!kc[R]) { char kb[64]; sprintf(kb, "addy-compose %s", repname[R]); kc[R] = mk_get(kb); }
					if (ea >= LDN_1601 && ea <= LDN_LAST) {
						ev(kc[R]);
						struct dt_d_s w2 = dt_dadd_y(dt_dadd_y(v, a), b);
						if (!same_text(R, w2, ROW(e), got)) {
							reptext(txt, R, r);
							mism(kc[R], l, "%s '%s' %+dy %+dy -> %s want %04d-%02d-%02d", repname[R], txt, a, b, got, ROW(e)[F_Y],
							     ROW(e)[F_M], ROW(e)[F_D]);
						}
					}
				}
			}
		}
	}
}

/* ------------------------------------------------------------------ C07 */
/* chain index of the k-th Mon-Fri day strictly after (k>0) / before (k<0) day l, by bcum */
static int expect_addb(int l, int k)
{
	const int32_t *r = ROW(l);
	int isb = r[F_WD] <= 5;
	int target;     /* bcum value of the wanted business day */
	if (k > 0) target = r[F_BCUM] + k;
	else target = r[F_BCUM] - (isb ? 0 : -1) + k;    /* weekend: bcum counts the Friday before */
	/* find the business day with bcum == target: search near l + k*7/5 */
	int g = l + (int)((long)k * 7 / 5);
	if (g < 0) g = 0;
	if (g > LDN_LAST) g = LDN_LAST;
	while (g > 0 && ROW(g)[F_BCUM] >= target) g--;
	while (g <= LDN_LAST && (ROW(g)[F_BCUM] < target || ROW(g)[F_WD] > 5)) g++;
	if (g > LDN_LAST || ROW(g)[F_BCUM] != target) return -1;
	return g;
}

static void mode_biz(int lo, int hi, int step, int kmax)
{
	char got[128], txt[64];
	for (int l = lo; l <= hi; l += step) {
		const int32_t *r = ROW(l);
		for (int R = 0; R < NREP; R++) {
			int ok;
			if (!rep_applies(R, r) || R == R_JDN) continue;
			struct dt_d_s v = mkval(R, r, &ok);
			if (!ok) continue;
			for (int k = -kmax; k <= kmax; k++) {
				static struct mkey *kb_[NREP][2], *kd_[NREP][2];
				int wk = r[F_WD] > 5;
				if (k == 0) continue;
				int e = expect_addb(l, k);
				if (e < LDN_1601 || e > LDN_LAST) continue;
				if (!kb_[R][wk]) { char kb[64]; sprintf(kb, "addb %s %s", repname[R], wk ? "weekend" : "bizday"); kb_[R][wk] = mk_get(kb); }
				ev(kb_[R][wk]);
				struct dt_d_s w = dt_dadd_b(v, k);
				if (!same_day(R, w, ROW(e), got)) {
					reptext(txt, R, r);
					mism(kb_[R][wk], l, "%s '%s' (%s) %+db -> %s want %04d-%02d-%02d", repname[R], txt, wd_abbr[r[F_WD]], k, got,
					     ROW(e)[F_Y], ROW(e)[F_M], ROW(e)[F_D]);
				}
				/* ddiff in business days inverts the addition */
				if (R <= R_DAISY) {
					int ok2;
					struct dt_d_s tv = mkval(R, ROW(e), &ok2);
					if (!ok2) continue;
					if (!kd_[R][wk]) { char kb[64]; sprintf(kb, "diffb %s %s", repname[R], wk ? "weekend" : "bizday"); kd_[R][wk] = mk_get(kb); }
					ev(kd_[R][wk]);
					struct dt_ddur_s du = dt_ddiff(DT_DURBD, v, tv, 0);
					if (du.dv != k) {
						/* the recorded finding is: from a weekend day backwards, one business day short.  Anything else
						 * from a weekend start (forwards, or off by another amount) is keyed apart so that it is not covered */
						struct mkey *kk = kd_[R][wk];
						if (wk && !(k < 0 && du.dv == k + 1)) {
							static struct mkey *ko_[NREP];
							if (!ko_[R]) { char kb[64]; sprintf(kb, "diffb %s weekend-other", repname[R]); ko_[R] = mk_get(kb); }
							kk = ko_[R];
						}
						reptext(txt, R, r);
						mism(kk, l, "%s '%s' (%s) to %04d-%02d-%02d: ddiff=%db (typ %d) but dadd used %+db", repname[R], txt,
						     wd_abbr[r[F_WD]], ROW(e)[F_Y], ROW(e)[F_M], ROW(e)[F_D], du.dv, du.durtyp, k);
					}
				}
			}
		}
		/* bizda notation: YYYY-MM-DDb denotes the DD-th Mon-Fri day (checked on business days by conv);
		 * month business-day total */
		if (r[F_D] == 1) {
			KEY(kt, "bdays-in-month");
			extern int __get_bdays(unsigned int y, unsigned int m);
			ev(kt);
			int tot = month_bdays(r);
			int g = __get_bdays(r[F_Y], r[F_M]);
			if (g != tot) mism(kt, l, "%04d-%02d: __get_bdays=%d want %d", r[F_Y], r[F_M], g, tot);
		}
	}
}

/* ------------------------------------------------------------------ C08 */
static void mode_cmp(int lo, int hi, int step, int win, int nrand)
{
	char ta[64], tb[64];
	for (int l = lo; l <= hi; l += step) {
		for (int R = 0; R < NREP; R++) {
			int ok;
			const int32_t *r = ROW(l);
			if (!rep_applies(R, r)) continue;
			struct dt_d_s a = mkval(R, r, &ok);
			if (!ok) continue;
			for (int j = -win; j <= win + nrand; j++) {
				static struct mkey *kc[NREP], *kr[NREP];
				int l2 = j <= win ? l + j : LDN_1601 + (int)(rnd() % (LDN_LAST - LDN_1601 + 1));
				int ok2;
				if (l2 < LDN_1601 || l2 > LDN_LAST || !rep_applies(R, ROW(l2))) continue;
				struct dt_d_s b = mkval(R, ROW(l2), &ok2);
				if (!ok2) continue;
				if (!kc[R]) { char kb[64]; sprintf(kb, "cmp %s", repname[R]); kc[R] = mk_get(kb); }
				ev(kc[R]);
				int c = dt_dcmp(a, b), want = (l > l2) - (l < l2);
				if (c != want) {
					reptext(ta, R, r);
					reptext(tb, R, ROW(l2));
					mism(kc[R], l, "dt_dcmp(%s '%s', '%s') = %d want %d", repname[R], ta, tb, c, want);
				}
				/* in-range predicate on the triple (a, min(a,b), max(a,b)+1) */
				if (j > 0 && j <= win && l2 + 1 <= LDN_LAST && rep_applies(R, ROW(l2 + 1)) && l - 1 >= LDN_1601 &&
				    rep_applies(R, ROW(l - 1))) {
					int o3, o4;
					struct dt_d_s up = mkval(R, ROW(l2 + 1), &o3), dn = mkval(R, ROW(l - 1), &o4);
					if (!kr[R]) { char kb[64]; sprintf(kb, "inrange %s", repname[R]); kr[R] = mk_get(kb); }
					if (o3 && o4) {
						ev(kr[R]);
						int in1 = dt_d_in_range_p(b, a, up);      /* a <= b <= up : yes */
						int in2 = dt_d_in_range_p(dn, a, b);      /* dn < a : no */
						int in3 = dt_d_in_range_p(a, a, b);       /* boundary: yes */
						if (!in1 || in2 || !in3) {
							reptext(ta, R, r);
							mism(kr[R], l, "in_range %s around '%s' (+%d): inside=%d below=%d edge=%d", repname[R], ta, j, in1, in2, in3);
						}
					}
				}
			}
		}
	}
}

/* times of day down to the nanosecond: dt_tcmp must be the order of <<h, m, s, ns>> (the comparison behind time-only expressions and bounds) */
static void mode_tcmp(void)
{
	static const int hs[] = {0, 1, 9, 10, 12, 23}, ms[] = {0, 1, 30, 59}, ss[] = {0, 1, 59};
	static const unsigned int ns[] = {0, 1, 2, 499999999, 500000000, 999999998, 999999999};
	struct dt_t_s v[6 * 4 * 3 * 7];
	long long k[6 * 4 * 3 * 7];
	int n = 0;
	KEY(kt, "cmp time-of-day");
	for (unsigned a = 0; a < 6; a++) for (unsigned b_ = 0; b_ < 4; b_++) for (unsigned c = 0; c < 3; c++) for (unsigned d = 0; d < 7; d++) {
		struct dt_t_s t = {DT_TUNK};
		t.typ = DT_HMS;
		t.hms.h = hs[a]; t.hms.m = ms[b_]; t.hms.s = ss[c]; t.hms.ns = ns[d];
		v[n] = t;
		k[n++] = ((hs[a] * 60LL + ms[b_]) * 60 + ss[c]) * 1000000000LL + ns[d];
	}
	for (int i = 0; i < n; i++) {
		for (int j = 0; j < n; j++) {
			int c = dt_tcmp(v[i], v[j]), want = (k[i] > k[j]) - (k[i] < k[j]);
			ev(kt);
			if (c != want) {
				mism(kt, 0, "dt_tcmp(%02d:%02d:%02d.%09u, %02d:%02d:%02d.%09u) = %d want %d", (int)v[i].hms.h, (int)v[i].hms.m, (int)v[i].hms.s,
				     (unsigned)v[i].hms.ns, (int)v[j].hms.h, (int)v[j].hms.m, (int)v[j].hms.s, (unsigned)v[j].hms.ns, c, want);
			}
		}
	}
}


/* ------------------------------------------------------------------ C11 */
static const int SODS[] = {0, 1, 59, 60, 3599, 3600, 43199, 43200, 86398, 86399};
static const long KSEC[] = {1, 59, 60, 61, 3599, 3600, 3601, 86399, 86400, 86401, 172800, 604799, 604800, 604801, 1000000,
	31536000, 2147483647L};
static const char *cal_fmt_t[NREP] = {"%FT%T", "%Y-%m-%c-%wT%T", "%G-W%V-%uT%T", "%Y-%jT%T", NULL, NULL, NULL, NULL, NULL};

static struct dt_dt_s mkdt(int R, const int32_t *r, int sod, int *ok)
{
	struct dt_dt_s d = {DT_UNK};
	d.d = mkval(R, r, ok);
	dt_make_sandwich(&d, d.d.typ, DT_HMS);
	d.t.hms.h = sod / 3600;
	d.t.hms.m = sod / 60 % 60;
	d.t.hms.s = sod % 60;
	d.t.hms.ns = 0;
	return d;
}

static int dt_matches(int R, struct dt_dt_s w, int tl, int tsod, char *got)
{
	char g2[128];
	int okd = tl >= LDN_1601 && tl <= LDN_LAST && same_day(R, w.d, ROW(tl), g2);
	int s = w.t.hms.h * 3600 + w.t.hms.m * 60 + w.t.hms.s;
	sprintf(got, "%s %02u:%02u:%02u", g2, (unsigned)w.t.hms.h, (unsigned)w.t.hms.m, (unsigned)w.t.hms.s);
	return okd && s == tsod;
}

static void mode_clock(int lo, int hi, int step, int nrand)
{
	static const int CR[] = {R_YMD, R_YMCW, R_YWD, R_YD, R_DAISY};
	static const char *units[] = {"s", "m", "h"};
	static const long mult[] = {1, 60, 3600};
	char got[160], txt[64], dbuf[48];
	for (int l = lo; l <= hi; l += step) {
		const int32_t *r = ROW(l);
		for (unsigned ri = 0; ri < 5; ri++) {
			int R = CR[ri], ok;
			for (unsigned si = 0; si < sizeof SODS / sizeof *SODS; si++) {
				int sod = SODS[si];
				struct dt_dt_s d = mkdt(R, r, sod, &ok);
				if (!ok) continue;
				/* additions */
				for (unsigned ki = 0; ki < sizeof KSEC / sizeof *KSEC + (unsigned)nrand; ki++) {
					for (int sg = -1; sg <= 1; sg += 2) {
						for (int u = 0; u < 3; u++) {
							static struct mkey *ka[NREP][3];
							long k = ki < sizeof KSEC / sizeof *KSEC ? KSEC[ki] : (long)(rnd() % 4000000);
							long long tot;
							if (u && k > 40000000L) continue;    /* keep k*unit inside 2^31 */
							if (u == 2 && k > 590000L) continue;
							k *= sg;
							tot = (long long)l * 86400 + sod + (long long)k * mult[u];
							long long tl = tot >= 0 ? tot / 86400 : -((-tot + 86399) / 86400);
							int tsod = (int)(tot - tl * 86400);
							if (tl < LDN_1601 || tl > LDN_LAST) continue;
							if (!ka[R][u]) { char kb[64]; sprintf(kb, "tadd %s %s", repname[R], units[u]); ka[R][u] = mk_get(kb); }
							ev(ka[R][u]);
							sprintf(dbuf, "%+ld%s", k, units[u]);
							char *ep = NULL;
							struct dt_dtdur_s du = dt_strpdtdur(dbuf, &ep);
							struct dt_dt_s w = dt_dtadd(d, du);
							if (!dt_matches(R, w, (int)tl, tsod, got)) {
								reptext(txt, R, r);
								mism(ka[R][u], l, "%s '%s' sod %d %s -> %s want %04d-%02d-%02d sod %d", repname[R], txt, sod, dbuf, got,
								     ROW(tl)[F_Y], ROW(tl)[F_M], ROW(tl)[F_D], tsod);
							}
						}
					}
				}
				/* epoch output and seconds difference against a second point */
				{
					static struct mkey *ke[NREP], *kd[NREP];
					long long ux = (long long)UDAY_OF_LDN(l) * 86400 + sod;
					if (!ke[R]) { char kb[64]; sprintf(kb, "epoch-out %s", repname[R]); ke[R] = mk_get(kb); }
					ev(ke[R]);
					size_t n = dt_strfdt(got, 64, "%s", d);
					got[n] = 0;
					if (strtoll(got, NULL, 10) != ux || dt_to_unix_epoch(d) != ux) {
						reptext(txt, R, r);
						mism(ke[R], l, "%s '%s' sod %d: %%s='%s' to_unix_epoch=%lld want %lld", repname[R], txt, sod, got,
						     (long long)dt_to_unix_epoch(d), ux);
					}
					for (int q = 0; q < 3; q++) {
						int l2 = q == 0 ? l + 1 : q == 1 ? l - 25000 - (int)(rnd() % 1000) : LDN_1601 + (int)(rnd() % (LDN_LAST - LDN_1601));
						int sod2 = SODS[rnd() % 10], ok2;
						if (l2 < LDN_1601 || l2 > LDN_LAST) continue;
						struct dt_dt_s d2 = mkdt(R, ROW(l2), sod2, &ok2);
						if (!ok2) continue;
						if (!kd[R]) { char kb[64]; sprintf(kb, "tdiff %s", repname[R]); kd[R] = mk_get(kb); }
						ev(kd[R]);
						struct dt_dtdur_s df = dt_dtdiff(DT_DURS, d, d2);
						long long want = ((long long)l2 - l) * 86400 + sod2 - sod;
						long long gv = df.dv;
						if (df.neg) gv = -gv;
						if (gv != want) {
							reptext(txt, R, r);
							mism(kd[R], l, "%s '%s' sod %d to ldn %d sod %d: diff %lld s want %lld", repname[R], txt, sod, l2, sod2, gv, want);
						}
					}
				}
			}
		}
		/* epoch input: @N and %s parse to the civil date-time of the chain */
		for (unsigned si = 0; si < 3; si++) {
			KEY(ki, "epoch-in");
			int sod = si == 0 ? 0 : si == 1 ? 86399 : (int)(rnd() % 86400);
			long long ux = (long long)UDAY_OF_LDN(l) * 86400 + sod;
			char *ep = NULL;
			ev(ki);
			sprintf(txt, "%lld", ux);
			struct dt_dt_s e = dt_strpdt(txt, "%s", &ep);
			struct dt_dt_s y = dt_dtconv((dt_dttyp_t)DT_YMD, e);
			if (l >= 917327) continue;      /* day-count tail: known finding of C01 */
			if (ux == 0) {
				/* the value 0 is a case of its own (the parser tests the value for non-zero) */
				KEY(kz, "epoch-in zero");
				ki->evals--;
				ev(kz);
				if (!dt_matches(R_YMD, y, l, sod, got)) mism(kz, l, "epoch 0 -> %s want 1970-01-01 sod 0", got);
				continue;
			}
			if (!dt_matches(R_YMD, y, l, sod, got)) {
				mism(ki, l, "epoch %s -> %s want %04d-%02d-%02d sod %d", txt, got, r[F_Y], r[F_M], r[F_D], sod);
			}
		}
		/* 24:00:00 denotes 00:00:00 of the following day */
		if (l < LDN_LAST) {
			KEY(km, "mil-midnight");
			char *ep = NULL;
			ev(km);
			sprintf(txt, "%04d-%02d-%02dT24:00:00", r[F_Y], r[F_M], r[F_D]);
			struct dt_dt_s e = dt_strpdt(txt, NULL, &ep);
			size_t n = dt_strfdt(got, 64, "%F %M:%S %s", e);
			got[n] = 0;
			char want[96];
			const int32_t *t = ROW(l + 1);
			sprintf(want, "%04d-%02d-%02d 00:00 %lld", t[F_Y], t[F_M], t[F_D], (long long)UDAY_OF_LDN(l + 1) * 86400);
			if (strcmp(got, want)) mism(km, l, "'%s' printed '%s' want '%s'", txt, got, want);
		}
	}
}

/* ------------------------------------------------------------------ trace events (direction B) */
static void mode_trace(int lo, int hi, int step)
{
	/* one Day event per day and source representation: what the real code answers, nothing derived */
	static const char *TSPECS[] = {"%Y", "%m", "%d", "%u", "%j", "%c", "%U", "%V", "%C", "%W", "%q", "%G", "%a", "%b", NULL};
	static const char *TNAMES[] = {"Y", "m", "d", "u", "j", "c", "U", "V", "C", "W", "q", "G", "a", "b"};
	char got[96];
	int prev = -2;
	for (int l = lo; l <= hi; l += step) {
		const int32_t *r = ROW(l);
		if (l != prev + 1) {
			printf("{\"e\":\"Reset\",\"y\":%d,\"m\":%d,\"d\":%d}\n", r[F_Y], r[F_M], r[F_D]);
		} else {
			printf("{\"e\":\"Next\"}\n");
		}
		prev = l;
		for (int R = 0; R < NREP; R++) {
			int ok;
			if (!rep_applies(R, r)) continue;
			struct dt_d_s v = mkval(R, r, &ok);
			if (!ok) continue;
			struct dt_d_s ymd = dt_dconv(DT_YMD, v), ymcw = dt_dconv(DT_YMCW, v), ywd = dt_dconv(DT_YWD, v),
				yd = dt_dconv(DT_YD, v), da = dt_dconv(DT_DAISY, v), ld = dt_dconv(DT_LDN, v), md = dt_dconv(DT_MDN, v),
				jd = dt_dconv(DT_JDN, v);
			printf("{\"e\":\"Day\",\"src\":\"%s\",\"ymd\":[%u,%u,%u],\"ymcw\":[%u,%u,%u,%u],\"ywd\":[%u,%u,%u],\"yd\":[%u,%d],"
			       "\"daisy\":%u,\"ldn\":%u,\"mdn\":%u,\"jdn2\":%ld,\"txt\":{",
			       repname[R], ymd.ymd.y, ymd.ymd.m, ymd.ymd.d, ymcw.ymcw.y, ymcw.ymcw.m, ymcw.ymcw.c, ymcw.ymcw.w % 7,
			       ywd.ywd.y, ywd.ywd.c, ywd.ywd.w % 7, yd.yd.y, yd.yd.d, da.daisy, ld.ldn, md.mdn,
			       lround(2.0 * (double)jd.jdn));
			for (int s = 0; TSPECS[s]; s++) {
				fmt1(got, sizeof got, TSPECS[s], v);
				printf("%s\"%s\":", s ? "," : "", TNAMES[s]);
				jstr(stdout, got);
			}
			printf("}}\n");
		}
	}
}

int main(int argc, char *argv[])
{
	if (argc < 5) {
		fprintf(stderr, "usage: drv_cal CHAIN MODE LO HI [STEP [SEED [ARGS..]]]\n");
		return 3;
	}
	load_chain(argv[1]);
	const char *mode = argv[2];
	int lo = atoi(argv[3]), hi = atoi(argv[4]);
	int step = argc > 5 ? atoi(argv[5]) : 1;
	rnd_seed(argc > 6 ? strtoull(argv[6], NULL, 10) + (uint64_t)lo * 7919 : 1);
	int a1 = argc > 7 ? atoi(argv[7]) : 0, a2 = argc > 8 ? atoi(argv[8]) : 0;
	if (lo < LDN_1601) lo = LDN_1601;
	if (hi > LDN_LAST) hi = LDN_LAST;
	if (step < 1) step = 1;
	if (!strcmp(mode, "conv")) {
		if (a1) srcmask = (unsigned)a1;
		if (a2) tgtmask = (unsigned)a2;
		if (argc > 9) do_specs = atoi(argv[9]);
		mode_conv(lo, hi, step);
	} else if (!strcmp(mode, "rt")) {
		mode_rt(lo, hi, step, a1);
	} else if (!strcmp(mode, "addd")) {
		mode_addd(lo, hi, step, a1, a2);
	} else if (!strcmp(mode, "addm")) {
		mode_addm(lo, hi, step, a1 ? a1 : 30, a2 ? a2 : 12);
	} else if (!strcmp(mode, "biz")) {
		mode_biz(lo, hi, step, a1 ? a1 : 70);
	} else if (!strcmp(mode, "cmp")) {
		mode_cmp(lo, hi, step, a1 ? a1 : 40, a2);
		mode_tcmp();
	} else if (!strcmp(mode, "clock")) {
		mode_clock(lo, hi, step, a1);
	} else if (!strcmp(mode, "trace")) {
		mode_trace(lo, hi, step);
		return 0;
	} else {
		fprintf(stderr, "unknown mode %s\n", mode);
		return 3;
	}
	dump_keys(stdout);
	return 0;
}
