/* drv_needle -- calc_grep_atom() of the real line scanner (src/dt-io.c via libdutio.a) on one format per stdin line:
 * prints {"ndl": needle as a string ("" none, "\u0001" needle-less mode), "omin": off_min, "omax": off_max, "flags": n} */
#if defined HAVE_CONFIG_H
# include "config.h"
#endif
#include <stdio.h>
#include <stdlib.h>
#include <string.h>
#include <stdint.h>
#include "dt-core.h"
#include "dt-io.h"

const char *prog = "drv_needle";

int main(void)
{
	static char line[4096];
	setvbuf(stdout, NULL, _IOFBF, 1 << 16);
	while (fgets(line, sizeof line, stdin)) {
		size_t n = strlen(line);
		struct grep_atom_s a;
		while (n && line[n - 1] == '\n') line[--n] = 0;
		a = calc_grep_atom(line);
		printf("{\"ndl\":\"");
		if (a.needle == 1) printf("\\u0001");
		else if (a.needle == '"' || a.needle == '\\') printf("\\%c", a.needle);
		else if (a.needle) putchar(a.needle);
		printf("\",\"omin\":%d,\"omax\":%d,\"flags\":%u}\n", (int)a.pl.off_min, (int)a.pl.off_max, (unsigned)a.pl.flags);
	}
	return 0;
}
