/* drv_strops -- the character-class searches of lib/strops.c (static table + generation counter) against libc,
 * over a long seeded history in one process so that the counter wraps several times.
 *   drv_strops SEED NCALLS   -> ndjson: one line per disagreement + a summary */
#if defined HAVE_CONFIG_H
# include "config.h"
#endif
#include <stdio.h>
#include <stdlib.h>
#include <string.h>
#include <stdint.h>
#include "strops.h"

static uint64_t st = 88172645463325252ULL;
static uint64_t rnd(void) { st ^= st << 13; st ^= st >> 7; st ^= st << 17; return st; }

int main(int argc, char *argv[])
{
	long n = argc > 2 ? atol(argv[2]) : 2000, bad = 0;
	char src[40], set[12];
	st ^= (uint64_t)(argc > 1 ? atoll(argv[1]) : 1) * 0x9E3779B97F4A7C15ULL;
	for (long i = 0; i < n; i++) {
		int ls = (int)(rnd() % 30), lt = (int)(rnd() % 8);
		for (int k = 0; k < ls; k++) src[k] = (char)(1 + rnd() % (i % 3 ? 12 : 255));
		src[ls] = 0;
		for (int k = 0; k < lt; k++) set[k] = (char)(1 + rnd() % (i % 3 ? 12 : 255));
		set[lt] = 0;
		size_t a = xstrcspn(src, set), b = strcspn(src, set);
		size_t c = xstrspn(src, set), d = strspn(src, set);
		char *e = xstrpbrk(src, set), *f = strpbrk(src, set);
		/* unlike libc, xstrpbrk() answers the terminating NUL when nothing is found */
		if (f == NULL) f = src + ls;
		if (a != b || c != d || e != f) {
			if (bad++ < 5) {
				printf("{\"e\":\"Mismatch\",\"call\":%ld,\"cspn\":[%zu,%zu],\"spn\":[%zu,%zu],\"pbrk\":[%ld,%ld]}\n", i, a, b, c, d,
				       e ? (long)(e - src) : -1L, f ? (long)(f - src) : -1L);
			}
		}
	}
	printf("{\"e\":\"Summary\",\"calls\":%ld,\"bad\":%ld}\n", n * 3, bad);
	return 0;
}
