/* drv_safe -- C10: the public parsers / formatters of libdut on hostile input, every string and every output buffer in an
 * exact-size heap block so that AddressSanitizer (build variant "san") traps the first byte read or written outside.
 * One command per line, arguments hex encoded ("-" = NULL pointer); one ndjson line per command.
 *   P  <fmt> <str>          dt_strpdt      ->  {"e":"P","unk":0|1,"used":n,"len":n}
 *   PD <fmt> <str>          dt_strpd           PT <fmt> <str>  dt_strpt
 *   PU <str>                dt_strpdtdur
 *   F  <bsz> <fmt> <val>    dt_strfdt on the value the format-less parser reads from <val>   ->  {"e":"F","ret":n,"bsz":n,"nul":0|1}
 *   FD / FT                 dt_strfd / dt_strft
 *   FU <bsz> <fmt> <dur>    dt_strfdtdur of the duration dt_strpdtdur reads from <dur>
 *   T  <fmt>                the loop around __tok_spec alone: {"e":"T","n":tokens,"end":offset of the last ep,"len":n}
 */
#if defined HAVE_CONFIG_H
# include "config.h"
#endif
#include <stdio.h>
#include <stdlib.h>
#include <string.h>
#include <stdint.h>
#include "dt-core.h"
#include "token.h"

static char *unhex(const char *h, size_t *n)
{
	size_t l = strlen(h) / 2;
	char *r;
	if (!strcmp(h, "-")) { *n = 0; return NULL; }
	if (!strcmp(h, "E")) l = 0;
	r = malloc(l + 1);
	for (size_t i = 0; i < l; i++) { unsigned v; sscanf(h + 2 * i, "%2x", &v); r[i] = (char)v; }
	r[l] = 0;
	*n = l;
	return r;
}

int main(void)
{
	static char line[70000];
	setvbuf(stdout, NULL, _IOLBF, 0);
	while (fgets(line, sizeof line, stdin)) {
		char cmd[8], a1[33000], a2[33000], a3[2000];
		size_t n = strlen(line);
		int na;
		while (n && line[n - 1] == '\n') line[--n] = 0;
		a1[0] = a2[0] = a3[0] = 0;
		na = sscanf(line, "%7s %32999s %32999s %1999s", cmd, a1, a2, a3);
		if (na < 2) { printf("{\"e\":\"?\"}\n"); continue; }
		if (cmd[0] == 'P') {
			size_t fl, sl;
			char *fmt, *str, *ep = NULL;
			int unk = 1;
			if (!strcmp(cmd, "PU")) {
				struct dt_dtdur_s d;
				str = unhex(a1, &sl);
				d = dt_strpdtdur(str, &ep);
				unk = d.durtyp == DT_DURUNK && d.d.durtyp == DT_DURUNK;
				printf("{\"e\":\"PU\",\"unk\":%d,\"used\":%ld,\"len\":%zu}\n", unk, ep && str ? (long)(ep - str) : 0L, sl);
				free(str);
				continue;
			}
			fmt = unhex(a1, &fl);
			str = unhex(a2, &sl);
			if (!strcmp(cmd, "P")) { struct dt_dt_s r = dt_strpdt(str, fmt, &ep); unk = dt_unk_p(r); }
			else if (!strcmp(cmd, "PD")) { struct dt_d_s r = dt_strpd(str, fmt, &ep); unk = r.typ == DT_DUNK; }
			else { struct dt_t_s r = dt_strpt(str, fmt, &ep); unk = r.typ == DT_TUNK; }
			printf("{\"e\":\"%s\",\"unk\":%d,\"used\":%ld,\"len\":%zu}\n", cmd, unk, ep && str ? (long)(ep - str) : 0L, sl);
			free(fmt); free(str);
		} else if (cmd[0] == 'F') {
			size_t bsz = strtoul(a1, NULL, 10), fl, vl, ret = 0;
			char *fmt = unhex(a2, &fl), *val = unhex(a3, &vl);
			char *buf = malloc(bsz ? bsz : 1);
			memset(buf, 0x7f, bsz ? bsz : 1);
			if (!strcmp(cmd, "FU")) {
				struct dt_dtdur_s d = dt_strpdtdur(val, NULL);
				ret = dt_strfdtdur(buf, bsz, fmt, d);
			} else {
				struct dt_dt_s v = dt_strpdt(val, NULL, NULL);
				if (!strcmp(cmd, "F")) ret = dt_strfdt(buf, bsz, fmt, v);
				else if (!strcmp(cmd, "FD")) ret = dt_strfd(buf, bsz, fmt, v.d);
				else ret = dt_strft(buf, bsz, fmt, v.t);
			}
			printf("{\"e\":\"%s\",\"ret\":%zu,\"bsz\":%zu,\"nul\":%d}\n", cmd, ret, bsz, ret < bsz ? buf[ret] == 0 : 1);
			free(buf); free(fmt); free(val);
		} else if (cmd[0] == 'T') {
			size_t fl;
			char *fmt = unhex(a1, &fl);
			const char *fp = fmt;
			int k = 0;
			while (*fp && k < 100000) { (void)__tok_spec(fp, &fp); k++; }
			printf("{\"e\":\"T\",\"n\":%d,\"end\":%ld,\"len\":%zu}\n", k, (long)(fp - fmt), fl);
			free(fmt);
		} else {
			printf("{\"e\":\"?\"}\n");
		}
	}
	return 0;
}
