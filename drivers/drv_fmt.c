/* drv_fmt -- C09 replay: value -> dt_strfdt(fmt) -> text -> dt_strpdt(text, fmt) -> value', through libdut's public API.
 *   F <fmt>            format for the following cases (literal tab after F; rest of line, \t and \n escapes kept as typed)
 *   K <n>              held representation of date part: 0 as parsed (ymd), else dt_dtconv target (DT_YMD=1, YMCW, BIZDA, DAISY, .., YWD, YD)
 *   B <iso>            dt_set_base
 *   LI <loc> / LF <loc>   setilocale / setflocale ("-" resets)
 *   V <iso> <ns>       one case; iso is read by the format-less parser (verified by C01)
 *   D <iso>            default round trip: strfdt(NULL) of the value under the current K, then the format-less parser
 * output per case: status \t text \t used \t len \t canon(v) \t canon(p)     status '=' equal and fully consumed, '!' otherwise
 * canon = <daisy day number or -> <h:m:s.ns or ->  (conversions to daisy are C01's subject) */
#if defined HAVE_CONFIG_H
# include "config.h"
#endif
#include <stdio.h>
#include <stdlib.h>
#include <string.h>
#include <stdint.h>
#include <signal.h>
#include <setjmp.h>
#include "dt-core.h"
#include "dt-locale.h"

static void canon(char *out, size_t n, struct dt_dt_s x)
{
	char d[32] = "-", t[48] = "-";
	if (dt_unk_p(x)) {
		snprintf(out, n, "UNK");
		return;
	}
	if (!x.sandwich && (x.typ == DT_SEXY || x.typ == DT_SEXYTAI)) {
		x = dt_dtconv((dt_dttyp_t)DT_YMD, x);
	}
	if (dt_sandwich_p(x) || dt_sandwich_only_d_p(x) || (!x.sandwich && x.typ > DT_UNK && x.typ < DT_NDTYP)) {
		struct dt_d_s dd = dt_dconv(DT_DAISY, x.d);
		snprintf(d, sizeof d, "%u", (unsigned)dd.daisy);
	}
	if (dt_sandwich_p(x) || dt_sandwich_only_t_p(x)) {
		snprintf(t, sizeof t, "%u:%u:%u.%u", (unsigned)x.t.hms.h, (unsigned)x.t.hms.m, (unsigned)x.t.hms.s, (unsigned)x.t.hms.ns);
	}
	snprintf(out, n, "%s %s", d, t);
}

static void esc(const char *s, size_t n)
{
	for (size_t i = 0; i < n; i++) {
		unsigned char c = s[i];
		if (c == '\t' || c == '\n' || c == '\\' || c < ' ') printf("\\x%02x", c);
		else putchar(c);
	}
}

#define MAXVALS 4096
#define MAXTIMS 64
static struct { char iso[32]; unsigned flags; char biz[32]; } vals[MAXVALS];
static int nvals;
static char tims[MAXTIMS][32];
static int ntims;
static unsigned long seq;
static sigjmp_buf jb;

/* one round trip; prints the result line when it failed or when echo is set; tag (if any) is appended as a last column */
static void one_case(const char *f, const char *iso, unsigned ns, int K, int echo, const char *tag)
{
	char buf[1024], cv[96], cp[96];
	char *ep = NULL;
	struct dt_dt_s v, p;
	size_t len;
	v = dt_strpdt(iso, NULL, NULL);
	if (dt_unk_p(v)) { printf("?\t%s\n", iso); return; }
	if (ns && (dt_sandwich_p(v) || dt_sandwich_only_t_p(v))) v.t.hms.ns = ns;
	if (K && (dt_sandwich_p(v) || dt_sandwich_only_d_p(v))) {
		struct dt_dt_s c = dt_dtconv((dt_dttyp_t)K, v);
		if (!dt_unk_p(c)) v = c;
	}
	len = dt_strfdt(buf, sizeof buf, f, v);
	if (len >= sizeof buf) len = sizeof buf - 1;
	buf[len] = 0;
	p = dt_strpdt(buf, f, &ep);
	canon(cv, sizeof cv, v);
	canon(cp, sizeof cp, p);
	{
		long used = ep ? ep - buf : -1;
		int ok = !strcmp(cv, cp) && used == (long)len && len > 0;
		if (ok && !echo) return;
		printf("%c\t", ok ? '=' : '!');
		esc(buf, len);
		printf("\t%ld\t%zu\t%s\t%s\t%s\n", used, len, cv, cp, tag);
	}
}

static void on_abrt(int sig)
{
	(void)sig;
	siglongjmp(jb, 1);
}

int main(void)
{
	static char line[8192], fmt[4096] = "%F";
	static volatile int K = 0;
	setvbuf(stdout, NULL, _IOFBF, 1 << 16);
	signal(SIGABRT, on_abrt);
	while (fgets(line, sizeof line, stdin)) {
		size_t n = strlen(line);
		if (sigsetjmp(jb, 1)) {
			/* an assertion of the library fired on this case */
			printf("!\tABORT\t-1\t0\t-\tABORT\t-\n");
			continue;
		}
		while (n && line[n - 1] == '\n') line[--n] = 0;
		if (line[0] == 'F' && line[1] == '\t') {
			strcpy(fmt, line + 2);
		} else if (line[0] == 'K') {
			K = atoi(line + 2);
		} else if (line[0] == 'B') {
			struct dt_dt_s b = dt_strpdt(line + 2, NULL, NULL);
			dt_set_base(b);
		} else if (line[0] == 'L' && (line[1] == 'I' || line[1] == 'F')) {
			const char *l = strcmp(line + 3, "-") ? line + 3 : NULL;
			if (line[1] == 'I') setilocale(l); else setflocale(l);
		} else if (line[0] == 'V' || (line[0] == 'D' && line[1] == ' ')) {
			char iso[64];
			unsigned ns = 0;
			if (sscanf(line + 2, "%63s %u", iso, &ns) < 1) continue;
			one_case(line[0] == 'V' ? fmt : NULL, iso, ns, K, 1, "");
		} else if (!strncmp(line, "D+ ", 3)) {
			/* D+ <iso> <flags> <bizda text|-> : value list for RUN; flags 1 century window, 2 decade window, 4 business day */
			if (nvals < MAXVALS && sscanf(line + 3, "%31s %u %31s", vals[nvals].iso, &vals[nvals].flags, vals[nvals].biz) == 3) nvals++;
		} else if (!strncmp(line, "T+ ", 3)) {
			if (ntims < MAXTIMS && sscanf(line + 3, "%31s", tims[ntims]) == 1) ntims++;
		} else if (!strncmp(line, "RUN ", 4)) {
			/* RUN <kind d|t|x> <win 0|1|2> <biz> <kmask> <hasN> : all admissible values x held representations on the current format;
			 * prints failures and every 9973rd success, then "#<TAB>count" */
			char kind;
			unsigned win, biz, kmask, hasn;
			static const unsigned NSV[] = {0, 1, 123456789, 999999999, 100000000, 10};
			long cnt = 0;
			if (sscanf(line + 4, "%c %u %u %u %u", &kind, &win, &biz, &kmask, &hasn) != 5) continue;
			if (kind == 't') {
				for (int i = 0; i < ntims; i++) {
					char tag[48];
					unsigned ns = hasn ? NSV[i % 6] : 0;
					snprintf(tag, sizeof tag, "0 %s %u", tims[i], ns);
					cnt++;
					one_case(fmt, tims[i], ns, 0, ++seq % 9973 == 0, tag);
				}
			} else {
				for (int k = 0; k < 7; k++) {
					if (!(kmask >> k & 1)) continue;
					if (k == 3 && kind != 'd') continue;
					for (int i = 0; i < nvals; i++) {
						char v[96], tag[128];
						unsigned ns = 0;
						if (win == 1 && !(vals[i].flags & 1)) continue;
						if (win == 2 && !(vals[i].flags & 2)) continue;
						if ((biz || k == 3) && !(vals[i].flags & 4)) continue;
						if (kind == 'd') {
							snprintf(v, sizeof v, "%s", k == 3 ? vals[i].biz : vals[i].iso);
						} else {
							snprintf(v, sizeof v, "%sT%s", vals[i].iso, tims[i % ntims]);
							ns = hasn ? NSV[i % 6] : 0;
						}
						snprintf(tag, sizeof tag, "%d %s %u", k, v, ns);
						cnt++;
						one_case(fmt, v, ns, k == 3 ? 0 : k, ++seq % 9973 == 0, tag);
					}
				}
			}
			printf("#\t%ld\n", cnt);
			fflush(stdout);
		} else if (line[0] == '.') {
			printf(".\n");
			fflush(stdout);
		}
	}
	return 0;
}
