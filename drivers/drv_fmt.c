/* drv_fmt -- C09 replay: value -> dt_strfdt(fmt) -> text -> dt_strpdt(text, fmt) -> value', through libdut's public API.
 *   F <fmt>            format for the following cases (literal tab after F; rest of line, \t and \n escapes kept as typed)
 *   K <n>              held representation of date part: 0 as parsed (ymd), else dt_dtconv target (DT_YMD=1, YMCW, BIZDA, DAISY, .., YWD, YD)
 *   B <iso>            dt_set_base
 *   LI <loc> / LF <loc>   setilocale / setflocale ("-" resets)
 *   V <iso> <ns>       one case; iso is read by the format-less parser (verified by C01)
 *   D <iso>            default round trip: strfdt(NULL) of the value under the current K, then the format-less parser
 * output per case: status \t text \t used \t len \t canon(v) \t canon(p)     status '=' equal and fully consumed, '!' otherwise
 * canon = <daisy day number or -> <h:m:s.ns or ->  (conversions to daisy are C01's subject) */
#if defined HAVE_CONFIG_H
# include "config.h"
#endif
#include <stdio.h>
#include <stdlib.h>
#include <string.h>
#include <stdint.h>
#include <signal.h>
#include <setjmp.h>
#include "dt-core.h"
#include "dt-locale.h"

static void canon(char *out, size_t n, struct dt_dt_s x)
{
	char d[32] = "-", t[48] = "-";
	if (dt_unk_p(x)) {
		snprintf(out, n, "UNK");
		return;
	}
	if (!x.sandwich && (x.typ == DT_SEXY || x.typ == DT_SEXYTAI)) {
		x = dt_dtconv((dt_dttyp_t)DT_YMD, x);
	}
	if (dt_sandwich_p(x) || dt_sandwich_only_d_p(x) || (!x.sandwich && x.typ > DT_UNK && x.typ < DT_NDTYP)) {
		struct dt_d_s dd = dt_dconv(DT_DAISY, x.d);
		snprintf(d, sizeof d, "%u", (unsigned)dd.daisy);
	}
	if (dt_sandwich_p(x) || dt_sandwich_only_t_p(x)) {
		snprintf(t, sizeof t, "%u:%u:%u.%u", (unsigned)x.t.hms.h, (unsigned)x.t.hms.m, (unsigned)x.t.hms.s, (unsigned)x.t.hms.ns);
	}
	snprintf(out, n, "%s %s", d, t);
}

static void esc(const char *s, size_t n)
{
	for (size_t i = 0; i < n; i++) {
		unsigned char c = s[i];
		if (c == '\t' || c == '\n' || c == '\\' || c < ' ') printf("\\x%02x", c);
		else putchar(c);
	}
}

static sigjmp_buf jb;
static void on_abrt(int sig)
{
	(void)sig;
	siglongjmp(jb, 1);
}

int main(void)
{
	static char line[8192], fmt[4096] = "%F";
	static volatile int K = 0;
	setvbuf(stdout, NULL, _IOFBF, 1 << 16);
	signal(SIGABRT, on_abrt);
	while (fgets(line, sizeof line, stdin)) {
		size_t n = strlen(line);
		if (sigsetjmp(jb, 1)) {
			/* an assertion of the library fired on this case */
			printf("!\tABORT\t-1\t0\t-\tABORT\n");
			continue;
		}
		while (n && line[n - 1] == '\n') line[--n] = 0;
		if (line[0] == 'F' && line[1] == '\t') {
			strcpy(fmt, line + 2);
		} else if (line[0] == 'K') {
			K = atoi(line + 2);
		} else if (line[0] == 'B') {
			struct dt_dt_s b = dt_strpdt(line + 2, NULL, NULL);
			dt_set_base(b);
		} else if (line[0] == 'L' && (line[1] == 'I' || line[1] == 'F')) {
			const char *l = strcmp(line + 3, "-") ? line + 3 : NULL;
			if (line[1] == 'I') setilocale(l); else setflocale(l);
		} else if (line[0] == 'V' || line[0] == 'D') {
			char iso[64], buf[1024], cv[96], cp[96];
			unsigned ns = 0;
			char *ep = NULL;
			const char *f = line[0] == 'V' ? fmt : NULL;
			struct dt_dt_s v, p;
			size_t len;
			if (sscanf(line + 2, "%63s %u", iso, &ns) < 1) continue;
			v = dt_strpdt(iso, NULL, NULL);
			if (dt_unk_p(v)) { printf("?\t%s\n", iso); continue; }
			if (ns && (dt_sandwich_p(v) || dt_sandwich_only_t_p(v))) v.t.hms.ns = ns;
			if (K && (dt_sandwich_p(v) || dt_sandwich_only_d_p(v))) {
				struct dt_dt_s c = dt_dtconv((dt_dttyp_t)K, v);
				if (!dt_unk_p(c)) v = c;
			}
			len = dt_strfdt(buf, sizeof buf, f, v);
			if (len >= sizeof buf) len = sizeof buf - 1;
			buf[len] = 0;
			p = dt_strpdt(buf, f, &ep);
			canon(cv, sizeof cv, v);
			canon(cp, sizeof cp, p);
			{
				long used = ep ? ep - buf : -1;
				int ok = !strcmp(cv, cp) && used == (long)len && len > 0;
				printf("%c\t", ok ? '=' : '!');
				esc(buf, len);
				printf("\t%ld\t%zu\t%s\t%s\n", used, len, cv, cp);
			}
		} else if (line[0] == '.') {
			printf(".\n");
			fflush(stdout);
		}
	}
	return 0;
}
