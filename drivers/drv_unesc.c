/* drv_unesc -- dt_io_unescape() of the real tools (src/dt-io.c via libdutio.a) on one string per stdin line, given in hex:
 * the string is copied into a heap block of exactly strlen+1 bytes (so that ASan sees any access beyond the terminator),
 * unescaped in place, and printed back in hex */
#if defined HAVE_CONFIG_H
# include "config.h"
#endif
#include <stdio.h>
#include <stdlib.h>
#include <string.h>
#include <stdint.h>
#include "dt-core.h"
#include "dt-io.h"

const char *prog = "drv_unesc";

static int hexv(int c)
{
	return c >= '0' && c <= '9' ? c - '0' : c >= 'a' && c <= 'f' ? c - 'a' + 10 : -1;
}

int main(void)
{
	static char line[1 << 16];
	setvbuf(stdout, NULL, _IOFBF, 1 << 16);
	while (fgets(line, sizeof line, stdin)) {
		size_t n = 0;
		char *blk;
		for (const char *p = line; hexv(p[0]) >= 0 && hexv(p[1]) >= 0; p += 2) n++;
		blk = malloc(n + 1);
		for (size_t i = 0; i < n; i++) blk[i] = (char)(hexv(line[2 * i]) * 16 + hexv(line[2 * i + 1]));
		blk[n] = 0;
		dt_io_unescape(blk);
		for (const char *p = blk; *p; p++) printf("%02x", (unsigned char)*p);
		putchar('\n');
		free(blk);
	}
	return 0;
}
