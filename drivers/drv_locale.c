/* drv_locale -- setilocale()/setflocale() sequences on the real library, reading the eight name tables after
 * every call.  Commands: I <loc> | F <loc> | RI | RF | T (tables only).  LOCALE_FILE must point to data/locale. */
#if defined HAVE_CONFIG_H
# include "config.h"
#endif
#include <stdio.h>
#include <stdlib.h>
#include <string.h>
#include <sys/types.h>
#include "dt-locale.h"

static void js(const char *s)
{
	putchar('"');
	for (; s && *s; s++) {
		if (*s == '"' || *s == '\\') putchar('\\');
		putchar(*s);
	}
	putchar('"');
}

static void tables(void)
{
	printf("{\"e\":\"Tables\",\"p\":[");
	js(dut_long_wday[1]); putchar(','); js(dut_abbr_wday[1]); putchar(','); js(dut_long_mon[1]); putchar(','); js(dut_abbr_mon[1]);
	printf("],\"f\":[");
	js(duf_long_wday[1]); putchar(','); js(duf_abbr_wday[1]); putchar(','); js(duf_long_mon[1]); putchar(','); js(duf_abbr_mon[1]);
	printf("]}\n");
}

int main(void)
{
	char line[256];
	setvbuf(stdout, NULL, _IOLBF, 0);
	while (fgets(line, sizeof line, stdin)) {
		size_t n = strlen(line);
		int rc = 0;
		while (n && (line[n - 1] == '\n')) line[--n] = 0;
		if (line[0] == 'I') rc = setilocale(line + 2);
		else if (line[0] == 'F') rc = setflocale(line + 2);
		else if (!strcmp(line, "RI")) rc = setilocale(NULL);
		else if (!strcmp(line, "RF")) rc = setflocale(NULL);
		(void)rc;
		tables();
	}
	return 0;
}
