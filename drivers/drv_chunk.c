/* drv_chunk -- the real chunk reader (src/prchunk.c) at model scale: compiled with -DDATEUTILS_VERIF and
 * -DVERIF_PRCH_NLINES=L -DVERIF_PRCH_LLEN=W/L -DVERIF_PRCH_CHUNK=K; read() is redirected to a schedule.
 * One case per stdin line:  <stream over x,n,r or '-' for empty> <r1,r2,...>   (read result sizes; 0 = EOF)
 * -> {"out":["x","",..],"ovf":false,"fills":N}   lines as delivered to the consumer loop all tools use */
#if defined HAVE_CONFIG_H
# include "config.h"
#endif
#include <stdio.h>
#include <stdlib.h>
#include <string.h>
#include <stdint.h>
#include <unistd.h>
#include <sys/types.h>

static const char *v_stream;
static size_t v_len, v_pos;
static int v_sched[256], v_nsched, v_si, v_ovf;
static char *v_base;
static size_t v_cap;

static ssize_t vread(int fd, void *buf, size_t n)
{
	size_t want;
	(void)fd;
	if (v_si < v_nsched) {
		want = (size_t)v_sched[v_si++];
	} else {
		want = v_len - v_pos;          /* schedule exhausted: deliver what is left, then EOF */
	}
	if (want > n) want = n;
	if (want > v_len - v_pos) want = v_len - v_pos;
	if ((char*)buf + want > v_base + v_cap) {
		/* the reader asks us to write beyond its window */
		v_ovf = 1;
		return 0;
	}
	for (size_t i = 0; i < want; i++) {
		char c = v_stream[v_pos + i];
		((char*)buf)[i] = c == 'n' ? '\n' : c == 'r' ? '\r' : 'x';
	}
	v_pos += want;
	return (ssize_t)want;
}
#define read vread
#include "prchunk.c"
#undef read

int main(void)
{
	char line[2048];
	prch_ctx_t ctx = NULL;
	setvbuf(stdout, NULL, _IOLBF, 0);
	while (fgets(line, sizeof line, stdin)) {
		char s[1024], sc[1024] = "";
		int nf = sscanf(line, "%1023s %1023s", s, sc);
		if (nf < 1) continue;
		v_stream = strcmp(s, "-") ? s : "";
		v_len = strlen(v_stream);
		v_pos = 0; v_si = 0; v_nsched = 0; v_ovf = 0;
		for (char *p = strtok(sc, ","); p && v_nsched < 256; p = strtok(NULL, ",")) v_sched[v_nsched++] = atoi(p);
		if (ctx) {
			free_prchunk(ctx);
			memset(ctx, 0, sizeof(*ctx));
		}
		ctx = init_prchunk(0);
		v_base = ctx->buf;
		v_cap = (size_t)MAX_NLINES * MAX_LLEN;
		printf("{\"out\":[");
		int first = 1, fills = 0, guard = 0;
		while (!v_ovf && prchunk_fill(ctx) >= 0 && guard++ < 1000) {
			fills++;
			if (v_ovf) break;
			for (char *ln; prchunk_haslinep(ctx) && guard++ < 100000; ) {
				size_t llen = prchunk_getline(ctx, &ln);
				printf("%s\"", first ? "" : ",");
				first = 0;
				if (ln == NULL || llen > 4096) {
					printf("BOGUS");
				} else {
					for (size_t i = 0; i < llen; i++) putchar(ln[i] == '\r' ? 'r' : ln[i] == 'x' ? 'x' : ln[i] == '\n' ? 'n' : '?');
				}
				putchar('"');
			}
		}
		printf("],\"ovf\":%s,\"fills\":%d,\"loop\":%s}\n", v_ovf ? "true" : "false", fills, guard >= 1000 ? "true" : "false");
	}
	return 0;
}
