"""running drv_cal sharded over the day chain and merging its per-key results"""
import json, subprocess, os
from concurrent.futures import ThreadPoolExecutor
from . import core, chain as chainmod


def run_sharded(drv, chainbin, mode, lo, hi, step=1, args=(), nshards=None, timeout=1800, env=None):
    """returns {key: {n, bad, min, max, s[]}} merged over shards"""
    nshards = nshards or core.NCPU
    lo = max(lo, chainmod.LDN_1601)
    hi = min(hi, chainmod.LDN_LAST)
    n = (hi - lo) // step + 1
    per = (n + nshards - 1) // nshards
    jobs = []
    for k in range(nshards):
        a = lo + k * per * step
        b = min(hi, a + (per - 1) * step)
        if a > hi:
            break
        jobs.append((a, b))

    def one(job):
        a, b = job
        cmd = [drv, chainbin, mode, str(a), str(b), str(step), str(core.seed())] + [str(x) for x in args]
        p = core.run(cmd, timeout=timeout, env=env)
        if p.returncode != 0:
            raise core.MachineryError("driver %s %s failed rc=%s: %s" % (mode, job, p.returncode, p.stderr[-1500:]))
        return p.stdout

    merged = {}
    with ThreadPoolExecutor(max_workers=nshards) as ex:
        for out in ex.map(one, jobs):
            for line in out.splitlines():
                j = json.loads(line)
                m = merged.get(j["k"])
                if m is None:
                    merged[j["k"]] = {"n": j["n"], "bad": j["bad"], "min": j["min"], "max": j["max"], "s": list(j["s"])}
                else:
                    m["n"] += j["n"]
                    if j["bad"]:
                        m["min"] = j["min"] if m["bad"] == 0 else min(m["min"], j["min"])
                        m["max"] = max(m["max"], j["max"])
                        m["bad"] += j["bad"]
                        if len(m["s"]) < 3:
                            m["s"] += j["s"][:3 - len(m["s"])]
    return merged


TAIL_FIRST = 917327      # 4094-05-05: first day the library's day-count -> ymd conversion refuses (pinned by test dconv.122)


def tail_collapse(k, m):
    """mismatch classes of day-count sources whose whole failing set lies in the 606-day tail are one finding"""
    if m["min"] >= TAIL_FIRST and any(p in k for p in ("daisy", "ldn", "mdn", "jdn")):
        return "daycount-tail:4094-05-05..4095-12-31"
    return None


def absorb(rep, merged, ch, prefix="", exhaustive=True, sample_every=40, collapse=tail_collapse):
    """feed merged driver results into the Report; key carries the failing-set signature when the
    sweep is deterministic (count and day range), so a different failing set is a different key"""
    ev = 0
    for i, (k, m) in enumerate(sorted(merged.items())):
        ev += m["n"]
        if i % sample_every == 0 and m["n"]:
            rep.sample({"case_class": prefix + k, "evaluations": m["n"], "mismatches": m["bad"]})
        if m["bad"]:
            key = collapse(k, m) if collapse else None
            if key:
                rep.disagree(key, {"class": k, "mismatches": m["bad"], "samples": m["s"][:1]})
                continue
            key = prefix + k
            if exhaustive:
                key += "#%d@%s..%s" % (m["bad"], ch.fmtF(m["min"]), ch.fmtF(m["max"]))
            rep.disagree(key, {"class": k, "evaluations": m["n"], "mismatches": m["bad"],
                               "first_day": ch.fmtF(m["min"]), "last_day": ch.fmtF(m["max"]), "samples": m["s"]})
    rep.count(evaluations=ev, distinct=ev)
    return ev


def trace_events(drv, chainbin, ldns):
    """drv_cal trace mode over a list of day indices (consecutive runs share a Reset); returns executions"""
    runs = []
    start = prev = None
    for l in ldns:
        if prev is not None and l == prev + 1:
            prev = l
            continue
        if start is not None:
            runs.append((start, prev))
        start = prev = l
    if start is not None:
        runs.append((start, prev))
    execs = []
    for a, b in runs:
        p = core.run([drv, chainbin, "trace", str(a), str(b), "1"], timeout=300)
        if p.returncode != 0:
            raise core.MachineryError("trace driver failed: " + p.stderr[-1000:])
        evs = [json.loads(x) for x in p.stdout.splitlines()]
        # the known day-count tail (see known-findings.txt) is judged in direction A; here its events would only
        # cut the rest of the execution off, so events from day-count sources on tail days are left out
        cur = a - 1
        keep = []
        for e in evs:
            if e["e"] in ("Reset", "Next"):
                cur += 1
            elif cur >= TAIL_FIRST and e.get("src") in ("daisy", "ldn", "mdn", "jdn"):
                continue
            keep.append(e)
        execs.append(keep)
    return execs
