"""line-protocol client for drivers that may hang on a query (zone lookups, map lookups):
every command gets a short timeout; a hang kills the driver, is reported to the caller, and the driver is restarted"""
import subprocess, select, json, os, time
from . import core


class LineDriver:
    def __init__(self, path, timeout=1.0, env=None, preamble=None):
        self.path, self.timeout, self.env = path, timeout, env
        self.preamble = preamble or []
        self.p = None
        self.hangs = 0
        self.crashes = 0
        self.stderr_tail = ""
        self.start()

    def start(self):
        e = dict(os.environ)
        if self.env:
            e.update(self.env)
        self.p = subprocess.Popen([self.path], stdin=subprocess.PIPE, stdout=subprocess.PIPE, stderr=subprocess.PIPE,
                                  env=e, bufsize=0)
        self.buf = b""
        for c in self.preamble:
            self._send(c)

    def _send(self, cmd):
        try:
            self.p.stdin.write((cmd + "\n").encode())
            self.p.stdin.flush()
        except (BrokenPipeError, OSError):
            return "crash"
        end = time.time() + self.timeout
        while b"\n" not in self.buf:
            left = end - time.time()
            if left <= 0:
                return "hang"
            r, _, _ = select.select([self.p.stdout], [], [], left)
            if not r:
                return "hang"
            chunk = os.read(self.p.stdout.fileno(), 65536)
            if not chunk:
                return "crash"
            self.buf += chunk
        line, self.buf = self.buf.split(b"\n", 1)
        try:
            return json.loads(line.decode("utf-8", "replace"))
        except ValueError:
            return {"e": "garbled", "raw": line.decode("utf-8", "replace")[:200]}

    def cmd(self, cmd):
        """returns the event dict, or the string 'hang' / 'crash' (driver restarted, preamble replayed)"""
        r = self._send(cmd)
        if r == "hang":
            # a loaded machine can make one answer slow: a hang is reported only if the same command, on a restarted driver and with
            # twenty times the patience, does not answer either
            self.kill()
            self.start()
            saved, self.timeout = self.timeout, max(20.0, self.timeout * 20)
            r2 = self._send(cmd)
            self.timeout = saved
            if r2 not in ("hang", "crash"):
                self.slow = getattr(self, "slow", 0) + 1
                return r2
            r = r2
        if r in ("hang", "crash"):
            if r == "hang":
                self.hangs += 1
                self.stderr_tail = ""
            else:
                self.crashes += 1
                try:
                    self.stderr_tail = self.p.stderr.read().decode("utf-8", "replace")[-3000:]
                except Exception:
                    pass
            self.kill()
            self.start()
        return r

    def set_preamble(self, cmds):
        self.preamble = list(cmds)

    def kill(self):
        try:
            self.p.kill()
            self.p.wait(timeout=5)
        except Exception:
            pass

    def close(self):
        try:
            self.p.stdin.close()
            self.p.wait(timeout=5)
        except Exception:
            self.kill()
