"""The day chain emitted by TLC from spec/Calendar.tla (direction A oracle).

chain.bin: int32[NDAYS][NF], row i = Lilian day i (days since 1582-10-15), fields FIELDS.
"""
import os, re, json, hashlib, array, time
from . import core

FIELDS = ["ldn", "y", "m", "d", "wd", "yd", "iy", "iw", "wU", "wW", "c", "bdm", "bcum", "hy", "hm", "hd"]
NF = len(FIELDS)
IDX = {f: i for i, f in enumerate(FIELDS)}
NDAYS_EXPECT = 917933          # 1582-10-15 .. 4095-12-31, checked independently below
LDN_1601 = 6653                # ldn of 1601-01-01 (daisy 1)
LDN_LAST = 917932

_SRC = ["Greg.tla", "Calendar.tla", "HijriTab.tla", "CalendarEmit.cfg"]


def spec_hash():
    h = hashlib.sha1()
    for f in _SRC:
        h.update(open(os.path.join(core.SPEC, f), "rb").read())
    return h.hexdigest()


def paths():
    d = os.path.join(core.OUT, "chain")
    os.makedirs(d, exist_ok=True)
    return os.path.join(d, "chain.bin"), os.path.join(d, "chain.json")


def independent_day_count():
    from datetime import date
    return date(4095, 12, 31).toordinal() - date(1582, 10, 15).toordinal() + 1


def generate(force=False):
    """run TLC on Calendar with emission; returns (binpath, meta, TlcResult or None)"""
    binp, metap = paths()
    h = spec_hash()
    if not force and os.path.exists(binp) and os.path.exists(metap):
        meta = json.load(open(metap))
        if meta.get("hash") == h and os.path.getsize(binp) == NDAYS_EXPECT * NF * 4:
            return binp, meta, None
    r = core.tlc_must_pass("Calendar", "CalendarEmit.cfg", heap="12g", timeout=1800, keep_prints=False)
    if r.distinct != independent_day_count() or r.distinct != NDAYS_EXPECT:
        raise core.MachineryError("Calendar chain has %d states, expected %d" % (r.distinct, NDAYS_EXPECT))
    buf = array.array("i", [0]) * (NDAYS_EXPECT * NF)
    seen = 0
    # TLC wraps values wider than 80 columns over several lines -> match across newlines
    rx = re.compile(r'<<\s*"D",([\s\d,]*)>>')
    for m in rx.finditer(r.out):
        v = [int(x) for x in m.group(1).split(",")]
        if len(v) != NF:
            raise core.MachineryError("bad chain record " + m.group(0))
        i = v[0]
        base = i * NF
        if buf[base + 1] == 0:
            seen += 1
        buf[base:base + NF] = array.array("i", v)
    if seen != NDAYS_EXPECT:
        raise core.MachineryError("chain emission incomplete: %d of %d days" % (seen, NDAYS_EXPECT))
    _selftest(buf)
    with open(binp + ".tmp", "wb") as f:
        buf.tofile(f)
    os.replace(binp + ".tmp", binp)
    meta = {"hash": h, "states": r.distinct, "generated": r.generated, "wall_s": round(r.wall, 1),
            "diameter": r.diameter, "at": time.strftime("%Y-%m-%dT%H:%M:%S")}
    json.dump(meta, open(metap, "w"))
    r.prints = []
    r.out = ""
    return binp, meta, r


def _selftest(buf):
    """machinery self-test: the emitted chain against CPython's datetime (independent implementation)"""
    from datetime import date
    o0 = date(1582, 10, 15).toordinal()
    step = 1
    for i in range(0, NDAYS_EXPECT, step):
        b = i * NF
        dt = date.fromordinal(o0 + i)
        iso = dt.isocalendar()
        if (buf[b + 1], buf[b + 2], buf[b + 3]) != (dt.year, dt.month, dt.day) or buf[b + 4] != iso[2] \
           or (buf[b + 6], buf[b + 7]) != (iso[0], iso[1]) or buf[b + 5] != dt.timetuple().tm_yday:
            raise core.MachineryError("chain self-test against CPython datetime failed at ldn %d" % i)


class Chain:
    def __init__(self):
        binp, self.meta, self.tlc = generate()
        self.path = binp
        self.a = array.array("i")
        with open(binp, "rb") as f:
            self.a.fromfile(f, NDAYS_EXPECT * NF)
        self._ymd = None

    def row(self, i):
        return self.a[i * NF:(i + 1) * NF]

    def get(self, i, f):
        return self.a[i * NF + IDX[f]]

    def ldn_of(self, y, m, d):
        from datetime import date
        return date(y, m, d).toordinal() - 577736     # self-tested against the chain in _selftest

    def fmtF(self, i):
        r = self.row(i)
        return "%04d-%02d-%02d" % (r[1], r[2], r[3])


def boundary_ldns(rng=None, width=40, extra_random=0):
    """Boundary day set derived from the spec: windows around century years, 400-year marks, range ends,
    14 year types, ISO 53-week years, Hijri table ends."""
    from datetime import date
    o0 = 577736
    s = set()

    def win(y, m, d, w=width):
        c = date(y, m, d).toordinal() - o0
        for k in range(c - w, c + w + 1):
            if LDN_1601 <= k <= LDN_LAST:
                s.add(k)
    for y in range(1700, 4096, 100):
        win(y, 1, 1)
        win(y, 3, 1)
    for y in (1601, 2000, 2400, 2800, 3200, 3600, 4000):
        win(y, 1, 1, 400 if y == 1601 else width)
        win(y, 3, 1)
    win(4095, 12, 31, 700)
    win(1970, 1, 1)
    win(2038, 1, 19)
    win(1900, 4, 30)
    win(2029, 4, 14)
    # 14 year types: first occurrence from 1995 on of each (jan-1 weekday, leap)
    seen = set()
    for y in range(1995, 2060):
        k = (date(y, 1, 1).isoweekday(), (y % 4 == 0 and (y % 100 != 0 or y % 400 == 0)))
        if k not in seen:
            seen.add(k)
            win(y, 1, 1, 10)
            win(y, 3, 1, 3)
            win(y, 12, 31, 10)
    if rng is not None and extra_random:
        for _ in range(extra_random):
            s.add(rng.randrange(LDN_1601, LDN_LAST + 1))
    return sorted(s)
