"""Core infrastructure for the dateutils verification checks.

  Build      scratch copy of /repo's working tree, built with the guard define
  tlc()      run TLC, parse counters / PrintT output / violations
  Report     collects disagreements, maps them to canonical keys, consults
             known-findings.txt, writes replay files + evidence, sets exit code
"""
import os, sys, re, json, time, shutil, subprocess, hashlib, random, tempfile, atexit, signal

VERIF = os.path.dirname(os.path.dirname(os.path.abspath(__file__)))
REPO = os.environ.get("VERIF_REPO", "/repo")
# runs against a seeded scratch tree (tools/try_seed.sh, tools/seed_pipeline.sh, bin/selftest) write their evidence elsewhere, so that the
# committed evidence always comes from runs on /repo itself
EVIDENCE_DIR = os.environ.get("VERIF_EVIDENCE_DIR", os.path.join(VERIF, "evidence"))
SPEC = os.path.join(VERIF, "spec")
DRV = os.path.join(VERIF, "drivers")
OUT = os.path.join(VERIF, "out")
GUARD = "DATEUTILS_VERIF"
NCPU = min(16, os.cpu_count() or 4)

EXIT_OK, EXIT_VIOLATION, EXIT_MACHINERY = 0, 1, 2


class MachineryError(Exception):
    """the model or harness failed -- never reported as a VIOLATION"""


_T0 = time.time()


def log(*a):
    print("[verif %6.1fs]" % (time.time() - _T0), *a, file=sys.stderr, flush=True)


def seed():
    try:
        return int(os.environ.get("VERIF_SEED", "1"))
    except ValueError:
        return 1


def rng(salt=""):
    return random.Random("%d/%s" % (seed(), salt))


def run(cmd, timeout=600, env=None, cwd=None, inp=None, check=False, text=True, max_out=None):
    """max_out: cap on the bytes a child may write to stdout (a file size limit on a temporary file, so a tool that never stops printing is
    ended by SIGXFSZ -- returncode -25 -- instead of filling this process's memory)"""
    e = dict(os.environ)
    if env:
        e.update(env)
    if max_out is not None:
        import resource

        class R:  # noqa
            pass
        with tempfile.TemporaryFile(dir=os.environ.get("VERIF_SCRATCH", "/var/tmp")) as of:
            def lim():
                resource.setrlimit(resource.RLIMIT_FSIZE, (max_out, max_out))
            pr = subprocess.Popen(cmd, stdin=subprocess.PIPE, stdout=of, stderr=subprocess.PIPE, env=e, cwd=cwd, preexec_fn=lim)
            try:
                _, err = pr.communicate((inp.encode("utf-8", "replace") if isinstance(inp, str) else inp) if inp is not None else None, timeout=timeout)
                R.returncode = pr.returncode
            except subprocess.TimeoutExpired:
                pr.kill()
                _, err = pr.communicate()
                R.returncode = 124
            of.seek(0)
            out = of.read(max_out)
        R.stdout = out.decode("utf-8", "replace") if text else out
        R.stderr = (err or b"").decode("utf-8", "replace") if text else (err or b"")
        return R
    try:
        p = subprocess.run(cmd, input=inp, stdout=subprocess.PIPE, stderr=subprocess.PIPE,
                           timeout=timeout, env=e, cwd=cwd, text=text,
                           errors="replace" if text else None)
    except subprocess.TimeoutExpired as x:
        class R:  # noqa
            returncode = 124
            stdout = x.stdout or ("" if text else b"")
            stderr = x.stderr or ("" if text else b"")
        if text and isinstance(R.stdout, bytes):
            R.stdout = R.stdout.decode("utf-8", "replace")
        if text and isinstance(R.stderr, bytes):
            R.stderr = R.stderr.decode("utf-8", "replace")
        return R
    if check and p.returncode != 0:
        raise MachineryError("command failed rc=%d: %s\n%s" % (p.returncode, cmd, (p.stderr or "")[-2000:]))
    return p


# --------------------------------------------------------------------------
# build

_ELF = b"\x7fELF"
_scratch_dirs = []


def _cleanup():
    for d in _scratch_dirs:
        shutil.rmtree(d, ignore_errors=True)


atexit.register(_cleanup)


def _sigterm(signum, frame):
    _cleanup()
    os._exit(143)


signal.signal(signal.SIGTERM, _sigterm)


def scratch(tag="s"):
    base = os.environ.get("VERIF_SCRATCH", "/var/tmp")
    d = tempfile.mkdtemp(prefix="verif.%d.%s." % (os.getpid(), tag), dir=base)
    _scratch_dirs.append(d)
    return d


SAN_CFLAGS = "-O1 -g -fsanitize=address,bounds -fno-sanitize-recover=all -fno-omit-frame-pointer"
SAN_ENV = {"ASAN_OPTIONS": "detect_leaks=0:abort_on_error=0:exitcode=99:allocator_may_return_null=1",
           "UBSAN_OPTIONS": "halt_on_error=1:exitcode=99"}


class Build:
    """a scratch copy of REPO's working tree, compiled with -D<GUARD>"""

    def __init__(self, variant="plain", tools=True):
        self.variant = variant
        self.dir = scratch(variant)
        self.root = os.path.join(self.dir, "r")
        t0 = time.time()
        run(["rsync", "-a", "--exclude", ".git", "--exclude", "*.o", "--exclude", "*.a",
             "--exclude", "*.trs", "--exclude", "test/*.log", "--exclude", ".deps/*.Po~",
             REPO + "/", self.root + "/"], check=True)
        # remove stale executables so that everything is relinked from the current sources
        for sub in ("lib", "src", "test"):
            p = os.path.join(self.root, sub)
            for fn in os.listdir(p):
                fp = os.path.join(p, fn)
                if os.path.isfile(fp) and os.access(fp, os.X_OK) and not fn.endswith((".sh", ".ctst", ".clit")):
                    with open(fp, "rb") as f:
                        if f.read(4) == _ELF:
                            os.unlink(fp)
        if not os.path.exists(os.path.join(self.root, "Makefile")):
            run(["./configure"], cwd=self.root, timeout=600, check=True)
        if variant == "plain":
            self.cc = "gcc -std=gnu11"
            self.cflags = "-O2 -g -D%s" % GUARD
            self.env = {}
        elif variant == "san":
            self.cc = "clang -std=gnu11"
            self.cflags = SAN_CFLAGS + " -D%s" % GUARD
            self.env = dict(SAN_ENV)
        else:
            raise MachineryError("unknown build variant " + variant)
        if tools:
            p = run(["make", "-j%d" % NCPU, "-C", self.root, "CC=" + self.cc, "CFLAGS=" + self.cflags + " -w"],
                    timeout=900)
            if p.returncode != 0:
                raise MachineryError("build of %s failed (%s):\n%s" % (REPO, variant, p.stderr[-3000:]))
        self.build_s = time.time() - t0
        self.lib = os.path.join(self.root, "lib")
        self.src = os.path.join(self.root, "src")
        log("build[%s] %.1fs in %s" % (variant, self.build_s, self.root))

    def tool(self, name):
        return os.path.join(self.src, name)

    def driver(self, name, extra_src=(), extra_flags="", link_lib=False, defs=""):
        """compile drivers/<name>.c against the scratch sources (the #include "x.c" seam)"""
        out = os.path.join(self.dir, name + (".san" if self.variant == "san" else ""))
        srcs = [os.path.join(DRV, name + ".c")] + [os.path.join(DRV, s) for s in extra_src]
        cmd = self.cc.split() + self.cflags.split() + ["-w", "-DHAVE_CONFIG_H", "-D_GNU_SOURCE",
              "-I" + self.lib, "-I" + self.src, "-I" + DRV, "-I" + self.root]
        cmd += defs.split() + srcs + ["-o", out] + extra_flags.split()
        if link_lib:
            cmd += [os.path.join(self.lib, "libdut.a")]
        cmd += ["-lm", "-lpthread"]
        p = run(cmd, timeout=600)
        if p.returncode != 0:
            raise MachineryError("driver %s failed to compile:\n%s" % (name, p.stderr[-4000:]))
        return out

    def close(self):
        shutil.rmtree(self.dir, ignore_errors=True)


# --------------------------------------------------------------------------
# TLC

class TlcResult:
    def __init__(self):
        self.rc = None
        self.generated = 0
        self.distinct = 0
        self.diameter = 0
        self.violated = []      # names of violated invariants / properties
        self.prints = []        # PrintT payload lines
        self.out = ""
        self.wall = 0.0
        self.ok = False
        self.coverage = {}
        self.postcond_failed = False
        self.deadlock = False

    def summary(self):
        return {"generated": self.generated, "distinct": self.distinct, "diameter": self.diameter,
                "violated": self.violated, "wall_s": round(self.wall, 2), "rc": self.rc}


_RE_STATES = re.compile(r"^(\d+) states generated, (\d+) distinct states found, (\d+) states left on queue")
_RE_DEPTH = re.compile(r"The depth of the complete state graph search is (\d+)")
_RE_INV = re.compile(r"Invariant (\S+) is violated")
_RE_PROP = re.compile(r"(?:Action property|Temporal properties|property) (\S+)? ?(?:is|were) violated")
_RE_COV = re.compile(r"^<(\w+) line .* of module (\w+)>: (\d+):(\d+)")


def tlc(module, cfg=None, workers=None, env=None, timeout=1800, simulate=None, depth=None,
        extra=(), heap="8g", keep_prints=True, dfs=False, coverage=False, quiet=False):
    """run TLC on spec/<module>.tla with spec/<cfg>; returns TlcResult (does not raise on violation)"""
    r = TlcResult()
    meta = scratch("tlc")
    cfgp = os.path.join(SPEC, cfg or (module + ".cfg"))
    if not os.path.exists(cfgp):
        cfgp = cfg
    jopts = "-Xmx%s -XX:+UseParallelGC" % heap
    if dfs:
        jopts += " -Dtlc2.tool.queue.IStateQueue=StateDeque"
    cmd = _tlc_cmd(jopts)
    cmd += ["-metadir", meta, "-noGenerateSpecTE", "-config", cfgp]
    if simulate:
        cmd += ["-simulate", "num=%d" % simulate]
        if depth:
            cmd += ["-depth", str(depth)]
        cmd += ["-seed", str(seed())]
    if coverage:
        cmd += ["-coverage", "1"]
    cmd += ["-workers", str(workers or NCPU)]
    cmd += list(extra)
    cmd += [os.path.join(SPEC, module + ".tla")]
    t0 = time.time()
    p = run(cmd, timeout=timeout, env=env, cwd=SPEC)
    r.wall = time.time() - t0
    r.rc = p.returncode
    r.out = p.stdout + p.stderr
    shutil.rmtree(meta, ignore_errors=True)
    for line in p.stdout.splitlines():
        m = _RE_STATES.match(line)
        if m:
            r.generated, r.distinct = int(m.group(1)), int(m.group(2))
            continue
        m = _RE_DEPTH.search(line)
        if m:
            r.diameter = int(m.group(1))
            continue
        m = _RE_INV.search(line)
        if m:
            r.violated.append(m.group(1))
            continue
        if "violated" in line and ("property" in line or "properties" in line):
            m = _RE_PROP.search(line)
            r.violated.append((m.group(1) if m and m.group(1) else "temporal"))
            continue
        if "Deadlock reached" in line:
            r.deadlock = True
        if "postcondition" in line.lower() and ("false" in line.lower() or "violated" in line.lower()):
            r.postcond_failed = True
        if coverage:
            m = _RE_COV.match(line)
            if m:
                r.coverage[m.group(2) + "!" + m.group(1)] = (int(m.group(3)), int(m.group(4)))
        if keep_prints and line[:1] in ('"', "<", "{", "["):
            r.prints.append(line)
    r.ok = (r.rc == 0 and not r.violated and not r.postcond_failed and not r.deadlock)
    if not quiet:
        log("tlc %s/%s: rc=%s gen=%d distinct=%d diam=%d viol=%s %.1fs" %
            (module, os.path.basename(cfgp), r.rc, r.generated, r.distinct, r.diameter, r.violated, r.wall))
    return r


_TLC_CP = None


def _tlc_cmd(jopts):
    global _TLC_CP
    if _TLC_CP is None:
        cp = None
        w = shutil.which("tlc")
        if w:
            try:
                txt = open(w).read()
                m = re.search(r"-cp\s+\"?([^\s\"]+)", txt)
                if m:
                    cp = m.group(1)
            except Exception:
                pass
        if not cp:
            cp = "/opt/veriftools/tla/tla2tools.jar"
            d = "/opt/veriftools/tla"
            for fn in os.listdir(d):
                if fn.endswith(".jar") and fn != "tla2tools.jar":
                    cp += ":" + os.path.join(d, fn)
        _TLC_CP = cp
    return ["java"] + jopts.split() + ["-cp", _TLC_CP, "tlc2.TLC"]


def tlc_must_pass(module, cfg=None, **kw):
    r = tlc(module, cfg, **kw)
    if not r.ok:
        raise MachineryError("TLC on %s (%s) did not pass: rc=%s violated=%s\n%s" %
                             (module, cfg, r.rc, r.violated, r.out[-3000:]))
    return r


def parse_print(line):
    """a PrintT(ToJson(x)) line is a TLA+ string literal holding JSON"""
    if line.startswith('"'):
        return json.loads(json.loads(line))
    return None


def validate_trace(module, cfg, events, workers=1, timeout=900, dfs=False, env=None):
    """Direction B: events (list of dicts) -> ndjson -> TLC on the trace spec.
    Returns (accepted, matched_prefix_len, TlcResult).  Acceptance = POSTCONDITION in cfg."""
    d = scratch("tr")
    path = os.path.join(d, "trace.ndjson")
    with open(path, "w") as f:
        for e in events:
            f.write(json.dumps(e, separators=(",", ":")) + "\n")
    e = {"TRACE": path}
    if env:
        e.update(env)
    r = tlc(module, cfg, workers=workers, env=e, timeout=timeout, dfs=dfs, keep_prints=False, quiet=True)
    shutil.rmtree(d, ignore_errors=True)
    if r.rc not in (0, 12, 13) and not r.generated:
        raise MachineryError("trace spec %s failed to run: rc=%s\n%s" % (module, r.rc, r.out[-3000:]))
    if "overrides.Json.ndDeserialize" in r.out and "produced the following error" in r.out:
        raise MachineryError("trace for %s is not readable by TLC's Json module:\n%s" % (module, r.out[-1500:]))
    accepted = r.ok
    if not accepted and not r.postcond_failed and not r.violated:
        # neither accepted nor rejected by the acceptance condition: TLC ran out of time or failed -- never a verdict on the code
        raise MachineryError("trace spec %s gave no verdict (rc=%s, %d events):\n%s" % (module, r.rc, len(events), r.out[-1500:]))
    matched = max(0, r.diameter - 1)
    return accepted, matched, r


def validate_batches(module, cfg, executions, max_reject=50, **kw):
    """executions: list of lists of events, each starting with a Reset-like event.
    Validates all in one JVM; on rejection isolates the offending execution and continues.
    Returns (n_validated, rejected[list of (exec_index, event_index, execution)], states, transitions)"""
    rejected = []
    live = list(range(len(executions)))
    states = 0
    nval = 0
    while live:
        flat = []
        starts = []
        for i in live:
            starts.append(len(flat))
            flat.extend(executions[i])
        ok, matched, r = validate_trace(module, cfg, flat, **kw)
        states += r.distinct
        if ok:
            nval += len(live)
            break
        # find the execution containing event number `matched` (0-based index of first unconsumed)
        bad = 0
        for j, s in enumerate(starts):
            if s <= matched:
                bad = j
        ei = live[bad]
        rejected.append((ei, matched - starts[bad], executions[ei]))
        nval += bad
        live = live[bad + 1:]
        if len(rejected) >= max_reject:
            break
    return nval, rejected, states


# --------------------------------------------------------------------------
# findings / report / evidence

def load_findings():
    known, fixed = {}, []
    p = os.path.join(VERIF, "known-findings.txt")
    if os.path.exists(p):
        for line in open(p):
            line = line.strip()
            if not line or line.startswith("#"):
                continue
            m = re.match(r"finding:\s+property=(\S+)\s+key=(\S+)\s*(.*)", line)
            if m:
                known[(m.group(1), m.group(2))] = m.group(3)
                continue
            if line.startswith("fixed:"):
                fixed.append(line)
    return known, fixed


class Report:
    def __init__(self, pid, tier, level):
        self.pid, self.tier, self.level = pid, tier, level
        self.t0 = time.time()
        self.known, _ = load_findings()
        self.hits = {}      # key -> [count, first detail]
        self.cov = {"evaluations": 0, "distinct_nontrivial": 0, "rule": "", "samples": [],
                    "states": 0, "transitions": 0, "traces_validated_against_impl": 0}
        self.assumptions = []
        self.notes = {}
        self.tlc_runs = []

    # -- coverage bookkeeping
    def add_tlc(self, name, r):
        self.cov["states"] += r.distinct
        self.cov["transitions"] += r.generated
        self.tlc_runs.append(dict(model=name, **r.summary()))

    def count(self, evaluations=0, distinct=0, traces=0):
        self.cov["evaluations"] += int(evaluations)
        self.cov["distinct_nontrivial"] += int(distinct)
        self.cov["traces_validated_against_impl"] += int(traces)

    def sample(self, s, limit=12):
        if len(self.cov["samples"]) < limit:
            self.cov["samples"].append(s)

    # -- disagreements
    def disagree(self, key, detail):
        """key: canonical finding key (no spaces); detail: JSON-able description (input, got, want)"""
        key = re.sub(r"\s+", "_", key)
        h = self.hits.get(key)
        if h is None:
            self.hits[key] = [1, detail]
        else:
            h[0] += 1

    def finish(self):
        os.makedirs(os.path.join(OUT, "replay"), exist_ok=True)
        os.makedirs(EVIDENCE_DIR, exist_ok=True)
        nviol = 0
        kf = []
        for key in sorted(self.hits):
            cnt, detail = self.hits[key]
            if (self.pid, key) in self.known:
                print("KNOWN-FINDING: property=%s key=%s (%d cases) %s" %
                      (self.pid, key, cnt, self.known[(self.pid, key)]))
                kf.append({"key": key, "cases": cnt})
                continue
            nviol += 1
            fn = os.path.join(OUT, "replay", "%s-%s.json" % (self.pid, hashlib.sha1(key.encode()).hexdigest()[:10]))
            with open(fn, "w") as f:
                json.dump({"property": self.pid, "key": key, "cases": cnt, "first": detail}, f, indent=1, default=str)
            print("VIOLATION property=%s replay=%s" % (self.pid, fn))
            print("  key=%s cases=%d first=%s" % (key, cnt, json.dumps(detail, default=str)[:600]))
        cov = dict(self.cov)
        cov["tlc_runs"] = self.tlc_runs
        cov["known_findings_seen"] = kf
        cov.update(self.notes)
        if not cov["samples"]:
            cov["samples"] = ["(none recorded)"]
        ev = {"property_id": self.pid, "tier": self.tier, "seed": seed(), "level": self.level,
              "coverage": cov, "assumptions": self.assumptions,
              "wall_s": round(time.time() - self.t0, 2), "violations": nviol}
        with open(os.path.join(EVIDENCE_DIR, self.pid + ".json"), "w") as f:
            json.dump(ev, f, indent=1, default=str)
        log("%s %s: evaluations=%d distinct=%d states=%d traces=%d violations=%d known=%d wall=%.1fs" %
            (self.pid, self.tier, cov["evaluations"], cov["distinct_nontrivial"], cov["states"],
             cov["traces_validated_against_impl"], nviol, len(kf), ev["wall_s"]))
        return EXIT_VIOLATION if nviol else EXIT_OK


def shim():
    """build (once per process) the LD_PRELOAD shim for the unmodified tools; returns its path"""
    d = os.path.join(OUT, "bin")
    os.makedirs(d, exist_ok=True)
    so = os.path.join(d, "libvshim.%d.so" % os.getpid())
    if not os.path.exists(so):
        run(["gcc", "-shared", "-fPIC", "-O2", "-o", so, os.path.join(DRV, "vshim.c"), "-ldl"], check=True)
        atexit.register(lambda: os.path.exists(so) and os.unlink(so))
    return so
