"""independent TZif reader (RFC 8536, versions 1-3) and a writer for synthetic zone files"""
import struct, os


class TZif:
    def __init__(self, path=None, data=None):
        self.path = path
        if data is None:
            data = open(path, "rb").read()
        self.data = data
        self.version, self.trs, self.typ, self.ofs, self.footer = self._parse(data)

    @staticmethod
    def _hdr(d, o):
        if d[o:o + 4] != b"TZif":
            raise ValueError("bad magic")
        ver = d[o + 4:o + 5]
        isutc, isstd, leap, tim, typ, char = struct.unpack(">6I", d[o + 20:o + 44])
        return ver, isutc, isstd, leap, tim, typ, char

    def _parse(self, d):
        ver, isutc, isstd, leap, tim, typ, char = self._hdr(d, 0)
        o = 44
        if ver in (b"\0",):
            trs = list(struct.unpack(">%di" % tim, d[o:o + 4 * tim]))
            o += 4 * tim
            tys = list(d[o:o + tim])
            o += tim
            ofs = [struct.unpack(">i", d[o + 6 * i:o + 6 * i + 4])[0] for i in range(typ)]
            return 1, trs, tys, ofs, b""
        # skip the v1 block
        o += tim * 4 + tim + typ * 6 + char + leap * 8 + isstd + isutc
        ver2, isutc, isstd, leap, tim, typ, char = self._hdr(d, o)
        o += 44
        trs = list(struct.unpack(">%dq" % tim, d[o:o + 8 * tim]))
        o += 8 * tim
        tys = list(d[o:o + tim])
        o += tim
        ofs = [struct.unpack(">i", d[o + 6 * i:o + 6 * i + 4])[0] for i in range(typ)]
        o += typ * 6 + char + leap * 12 + isstd + isutc
        return int(ver.decode()) if ver.isdigit() else 2, trs, tys, ofs, d[o:]

    def offset_at(self, t):
        """offset in force at t according to the table; None before the first transition"""
        import bisect
        i = bisect.bisect_right(self.trs, t) - 1
        if i < 0:
            return None
        return self.ofs[self.typ[i]]

    def compacted(self):
        """the table with transitions to the same type merged into their predecessor"""
        trs, typ = [], []
        for i, (t, y) in enumerate(zip(self.trs, self.typ)):
            if i == 0 or self.typ[i - 1] != y:
                trs.append(t)
                typ.append(y)
        return trs, typ


def write_tzif(path, trs, typ, ofs, version=2, names=None):
    """write a TZif file: transitions trs (sorted), type index per transition, utoff per type"""
    ntyp = len(ofs)
    abbr = b"".join(("T%02d" % i).encode() + b"\0" for i in range(ntyp))

    def block(v64):
        hdr = b"TZif" + (b"\0" if version == 1 and not v64 else str(version).encode()) + b"\0" * 15
        hdr += struct.pack(">6I", 0, 0, 0, len(trs), ntyp, len(abbr))
        body = b"".join(struct.pack(">q" if v64 else ">i", t if v64 else max(-2 ** 31, min(2 ** 31 - 1, t))) for t in trs)
        body += bytes(typ)
        for i, o in enumerate(ofs):
            body += struct.pack(">iBB", o, 0, 4 * i)
        body += abbr
        return hdr + body
    if version == 1:
        data = block(False)
    else:
        data = block(False) + block(True) + b"\n\n"
    with open(path, "wb") as f:
        f.write(data)
    return data


def all_zone_files(root="/usr/share/zoneinfo"):
    """distinct TZif files (by content) under root: [(name, path)]"""
    seen = {}
    for dp, dn, fn in os.walk(root):
        dn.sort()
        if any(x in dp for x in ("/posix", "/right")):
            continue
        for f in sorted(fn):
            p = os.path.join(dp, f)
            try:
                with open(p, "rb") as fh:
                    d = fh.read()
            except OSError:
                continue
            if d[:4] != b"TZif":
                continue
            import hashlib
            h = hashlib.sha1(d).hexdigest()
            name = os.path.relpath(p, root)
            if h not in seen or len(name) < len(seen[h][0]):
                seen.setdefault(h, (name, p))
    return sorted(seen.values())
